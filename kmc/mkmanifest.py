"""Regenerates /verif/MANIFEST.json from the table below (python3 -m kmc.mkmanifest)."""
import json
import os
import subprocess

ROOT = os.path.dirname(os.path.dirname(os.path.abspath(__file__)))
BASELINE = "cd /repo && /venv/bin/python -m pytest -ra -q -p no:cacheprovider --timeout=900 --continue-on-collection-errors"

# pid -> (engine, technique, level text, level note, design ref)
CLAIMED = {
    "C18": ("kmc-E1-space",
            "bounded-exhaustive enumeration of operand pairs/triples/elements against an int-bitmask reference model",
            "Every pair of binary polynomials below degree 8 (quick) / 9 (thorough), every triple below degree 5/6, every pair of "
            "GF(2^m) elements for m<=8, every triple for m<=5/6, every element's inverse/power/trace/conjugates/minimal polynomial "
            "for m<=8/10 and a structured set for m<=16, and the modulus + primitive-element order walk for every m in 1..16 are "
            "executed on the real classes and compared with an independent reference; nothing is sampled.",
            "Reference arithmetic in kmc/ref (self-tested against textbook facts by setup_cmd). Degrees/fields above the bounds are "
            "covered only on the structured families listed in the evidence.", "DESIGN.md §5 C18"),
}
PENDING_REASON = "check not built yet in this session (work in progress; see DESIGN.md §5 for the planned exploration)"


def main():
    props = [json.loads(l)["id"] for l in open(os.path.join(ROOT, "properties.jsonl"))]
    checks = []
    for pid in props:
        if pid not in CLAIMED:
            continue
        eng, tech, text, note, ref = CLAIMED[pid]
        checks.append({
            "property_id": pid,
            "quick_cmd": f"./check {pid} --tier quick",
            "thorough_cmd": f"./check {pid} --tier thorough",
            "evidence_file": f"/verif/evidence/{pid}.json",
            "replay_cmd_template": f"./check {pid} --replay {{path}}",
            "engine": eng,
            "level_claimed": {"category": "model_checking", "text": text, "design_ref": ref},
            "level_note": note,
            "technique": tech,
        })
    fixes = []
    try:
        fixes = json.load(open(os.path.join(ROOT, "known_findings.json"))).get("fixed", [])
    except Exception:
        pass
    man = {
        "version": 1,
        "setup_cmd": "cd /verif && ./check --selftest",
        "hooks": {"guard": "KAIRA_VERIF", "enable": "no source hooks: seams are run-time monkey-patches made by the harness (RNG primitives, ThreadPoolExecutor.submit); checks import /repo's working tree through /venv's editable install",
                  "baseline_off_cmd": BASELINE, "source_commits": [], "add_only": True},
        "engines": [
            {"name": "kmc-E1-space", "path": "kmc/engine.py", "serves_properties": [p for p in CLAIMED if CLAIMED[p][0] == "kmc-E1-space"],
             "kind_free_text": "product-space enumerator: configurations x layouts x input alphabets, sharded over a worker pool, reference model compared on every case"},
            {"name": "kmc-E2-bfs", "path": "kmc/bfs.py", "serves_properties": [p for p in CLAIMED if "E2" in CLAIMED[p][0]],
             "kind_free_text": "explicit-state BFS over operation histories on the real object, whole-object canonical state hash, reference stepped in lock-step"},
            {"name": "kmc-E3-sched", "path": "kmc/sched.py", "serves_properties": [p for p in CLAIMED if "E3" in CLAIMED[p][0]],
             "kind_free_text": "schedule explorer: every feasible completion order of a real ThreadPoolExecutor fan-out, forced with gates"},
            {"name": "kmc-E4-rngseam", "path": "kmc/rngseam.py", "serves_properties": [p for p in CLAIMED if "E4" in CLAIMED[p][0]],
             "kind_free_text": "environment-answer enumerator: torch random primitives answered by the harness (enumerated alphabets / quantile grids)"},
        ],
        "checks": checks,
        "notes": "All checks: exit 0 = held on everything explored (KNOWN-FINDING lines for listed open findings), exit 1 + VIOLATION line otherwise, exit 2 = harness error. known_findings.json lists open findings and fixed defects (fix: commits in /repo: "
                 + ", ".join(f.get("commit", "?")[:8] for f in fixes) + ").",
        "not_applicable": [{"property_id": p, "reason": PENDING_REASON} for p in props if p not in CLAIMED],
    }
    with open(os.path.join(ROOT, "MANIFEST.json"), "w") as f:
        json.dump(man, f, indent=1)
    code = ("import json,jsonschema;jsonschema.Draft202012Validator(json.load(open('/root/.vp/MANIFEST.schema.json')))"
            ".validate(json.load(open('%s/MANIFEST.json')));print('MANIFEST valid')" % ROOT)
    subprocess.run(["python3-vt", "-c", code], check=True)


if __name__ == "__main__":
    main()
