"""Regenerates /verif/MANIFEST.json from the table below (python3 -m kmc.mkmanifest)."""
import json
import os
import subprocess

ROOT = os.path.dirname(os.path.dirname(os.path.abspath(__file__)))
BASELINE = "cd /repo && /venv/bin/python -m pytest -ra -q -p no:cacheprovider --timeout=900 --continue-on-collection-errors"

# pid -> (engine, technique, level text, level note, design ref)
E1 = "kmc-E1-space"
NOTE_GF2 = ("Reference GF(2)/polynomial arithmetic in kmc/ref (self-tested by setup_cmd against textbook weight enumerators and factorisations). "
            "Verdicts hold within the stated size bounds; sizes above are covered on enumerated structured families only (evidence.bounds).")
CLAIMED = {
    "C01": (E1, "bounded-exhaustive enumeration of the code catalogue x all messages x all words against a GF(2) bitmask reference",
            "Every constructible encoder of the catalogue (every full-rank generator up to 3x4 / n=5, every systematic P with every information set, "
            "Hamming, Golay, repetition, SPC, RM, every divisor of X^n+1 as cyclic code, every Bose distance, RS-style, every small H incl. "
            "rank-deficient ones) is built for real; all 2^k messages are encoded and compared with m.G, rank/orthogonality of the published G and H are "
            "computed exactly, and calculate_syndrome is observed on all 2^n words (n<=12/16).", NOTE_GF2, "DESIGN.md §5 C01"),
    "C02": (E1, "bounded-exhaustive enumeration of (code, decoder) pairs x codewords x error patterns of weight <= t / all received words, nearest-codeword oracle",
            "Each decoder (syndrome table, brute-force ML, Berlekamp-Massey, Reed majority, Hamming and RM inverses) runs on every codeword plus every "
            "error pattern up to the advertised t (exhaustive when the product is small, structured otherwise) and complete decoders on all 2^n words; "
            "outputs are compared with the transmitted message / the minimum distance to the encoder's own codebook.", NOTE_GF2, "DESIGN.md §5 C02"),
    "C03": (E1, "exhaustive enumeration of named-family configurations; exact minimum distance by codeword enumeration or MacWilliams transform of the dual",
            "For every named configuration the code is rebuilt from what the encoder outputs, its true (n,k,d) is computed exactly and compared with every "
            "advertised quantity; cyclic families are checked for shift closure and divisibility by the published generator polynomial.", NOTE_GF2, "DESIGN.md §5 C03"),
    "C04": (E1, "bounded-exhaustive enumeration of catalogue x inverse method x layout x all messages; rejection sub-space for non-multiple last dimensions",
            "encode followed by inverse_encode / extract_message / project_word on all messages in every layout (1-D, batches, 3-D, 2..4 blocks per row) must "
            "be the identity with all-zero syndrome; last dimensions that are not multiples must raise.", NOTE_GF2, "DESIGN.md §5 C04"),
    "C05": ("kmc-E1-space+kmc-E2-bfs", "exhaustive enumeration of symbols/pairs/triples/de Bruijn sequences per scheme and layout + explicit-state BFS over call histories of stateful modems",
            "Every scheme/order/labelling: all single symbols, all ordered pairs, triples (M<=8), a de Bruijn sequence and all layouts are modulated and hard "
            "demodulated; for schemes with memory every history of {train, eval, reset, modulate, roundtrip} up to depth 3/4 is explored on real objects "
            "(whole-object state hash) and the round trip must hold after reset+eval from every reached state.",
            "Start-up allowances as stated in the property. Float32 bit tensors.", "DESIGN.md §5 C05"),
    "C06": (E1, "exhaustive enumeration of a dense deterministic grid of received points x noise variances x forms against a float64 max-log reference",
            "Hard decisions must be a nearest point and soft outputs must equal c*(d1^2-d0^2)/sigma^2 with one positive c per scheme on every grid point, "
            "both sides of every decision boundary, six decades of sigma^2 (float / 0-d / per-symbol).",
            "Real-valued input space is continuous: the verdict is for the stated finite grid. Reference uses the scheme's published tables (bijectivity is C14).", "DESIGN.md §5 C06"),
    "C10": (E1, "bounded-exhaustive enumeration of forest parity-check matrices x decoder options x LLR alphabets against brute-force posteriors / soft-ML",
            "BP and min-sum on every forest H (n<=4/5 + shard + trees to n=12): all codewords at six magnitudes, all LLR vectors over a 6-letter alphabet vs "
            "brute-force bitwise posteriors, min-sum rule on single checks, scale invariance; Wagner on every sign pattern x magnitude assignment vs brute-force ML; soft RM.",
            "Float64 brute-force references; Taylor-arctanh mode only required for |LLR|<=0.5; inputs kept inside the decoder's documented clipping ranges.", "DESIGN.md §5 C10"),
    "C14": (E1, "fully exhaustive enumeration of constellations, labels, point pairs and of all integers below 2^16/2^20 for the Gray utilities",
            "All points/labels/pairs of every published constellation; mapper vs table; unit energy; Gray neighbours; Gray utilities for every integer below the bound "
            "and structured integers to 2^60.", "none beyond float tolerances 1e-5", "DESIGN.md §5 C14"),
    "C18": (E1,
            "bounded-exhaustive enumeration of operand pairs/triples/elements against an int-bitmask reference model",
            "Every pair of binary polynomials below degree 8 (quick) / 9 (thorough), every triple below degree 5/6, every pair of "
            "GF(2^m) elements for m<=8, every triple for m<=5/6, every element's inverse/power/trace/conjugates/minimal polynomial "
            "for m<=8/10 and a structured set for m<=16, and the modulus + primitive-element order walk for every m in 1..16 are "
            "executed on the real classes and compared with an independent reference; nothing is sampled.",
            "Reference arithmetic in kmc/ref (self-tested against textbook facts by setup_cmd). Degrees/fields above the bounds are "
            "covered only on the structured families listed in the evidence.", "DESIGN.md §5 C18"),
}
PENDING_REASON = "check not built yet in this session (work in progress; see DESIGN.md §5 for the planned exploration)"


def main():
    props = [json.loads(l)["id"] for l in open(os.path.join(ROOT, "properties.jsonl"))]
    checks = []
    for pid in props:
        if pid not in CLAIMED:
            continue
        eng, tech, text, note, ref = CLAIMED[pid]
        checks.append({
            "property_id": pid,
            "quick_cmd": f"./check {pid} --tier quick",
            "thorough_cmd": f"./check {pid} --tier thorough",
            "evidence_file": f"/verif/evidence/{pid}.json",
            "replay_cmd_template": f"./check {pid} --replay {{path}}",
            "engine": eng,
            "level_claimed": {"category": "model_checking", "text": text, "design_ref": ref},
            "level_note": note,
            "technique": tech,
        })
    fixes = []
    try:
        fixes = json.load(open(os.path.join(ROOT, "known_findings.json"))).get("fixed", [])
    except Exception:
        pass
    man = {
        "version": 1,
        "setup_cmd": "cd /verif && ./check --selftest",
        "hooks": {"guard": "KAIRA_VERIF", "enable": "no source hooks: seams are run-time monkey-patches made by the harness (RNG primitives, ThreadPoolExecutor.submit); checks import /repo's working tree through /venv's editable install",
                  "baseline_off_cmd": BASELINE, "source_commits": [], "add_only": True},
        "engines": [
            {"name": "kmc-E1-space", "path": "kmc/engine.py", "serves_properties": [p for p in CLAIMED if "E1" in CLAIMED[p][0]],
             "kind_free_text": "product-space enumerator: configurations x layouts x input alphabets, sharded over a worker pool, reference model compared on every case"},
            {"name": "kmc-E2-bfs", "path": "kmc/bfs.py", "serves_properties": [p for p in CLAIMED if "E2" in CLAIMED[p][0]],
             "kind_free_text": "explicit-state BFS over operation histories on the real object, whole-object canonical state hash, reference stepped in lock-step"},
            {"name": "kmc-E3-sched", "path": "kmc/sched.py", "serves_properties": [p for p in CLAIMED if "E3" in CLAIMED[p][0]],
             "kind_free_text": "schedule explorer: every feasible completion order of a real ThreadPoolExecutor fan-out, forced with gates"},
            {"name": "kmc-E4-rngseam", "path": "kmc/rngseam.py", "serves_properties": [p for p in CLAIMED if "E4" in CLAIMED[p][0]],
             "kind_free_text": "environment-answer enumerator: torch random primitives answered by the harness (enumerated alphabets / quantile grids)"},
        ],
        "checks": checks,
        "notes": "All checks: exit 0 = held on everything explored (KNOWN-FINDING lines for listed open findings), exit 1 + VIOLATION line otherwise, exit 2 = harness error. known_findings.json lists open findings and fixed defects (fix: commits in /repo: "
                 + ", ".join(f.get("commit", "?")[:8] for f in fixes) + ").",
        "not_applicable": [{"property_id": p, "reason": PENDING_REASON} for p in props if p not in CLAIMED],
    }
    with open(os.path.join(ROOT, "MANIFEST.json"), "w") as f:
        json.dump(man, f, indent=1)
    code = ("import json,jsonschema;jsonschema.Draft202012Validator(json.load(open('/root/.vp/MANIFEST.schema.json')))"
            ".validate(json.load(open('%s/MANIFEST.json')));print('MANIFEST valid')" % ROOT)
    subprocess.run(["python3-vt", "-c", code], check=True)


if __name__ == "__main__":
    main()
