"""Regenerates /verif/MANIFEST.json from the table below (python3 -m kmc.mkmanifest)."""
import json
import os
import subprocess

ROOT = os.path.dirname(os.path.dirname(os.path.abspath(__file__)))
BASELINE = "cd /repo && /venv/bin/python -m pytest -ra -q -p no:cacheprovider --timeout=900 --continue-on-collection-errors"

# pid -> (engine, technique, level text, level note, design ref)
E1 = "kmc-E1-space"
NOTE_GF2 = ("Reference GF(2)/polynomial arithmetic in kmc/ref (self-tested by setup_cmd against textbook weight enumerators and factorisations). "
            "Verdicts hold within the stated size bounds; sizes above are covered on enumerated structured families only (evidence.bounds).")
CLAIMED = {
    "C01": (E1, "bounded-exhaustive enumeration of the code catalogue x all messages x all words against a GF(2) bitmask reference",
            "Every constructible encoder of the catalogue (every full-rank generator up to 3x4 / n=5, every systematic P with every information set, "
            "Hamming, Golay, repetition, SPC, RM, every divisor of X^n+1 as cyclic code, every Bose distance, RS-style, every small H incl. "
            "rank-deficient ones) is built for real; all 2^k messages are encoded and compared with m.G, rank/orthogonality of the published G and H are "
            "computed exactly, and calculate_syndrome is observed on all 2^n words (n<=12/16).", NOTE_GF2, "DESIGN.md §5 C01"),
    "C02": (E1, "bounded-exhaustive enumeration of (code, decoder) pairs x codewords x error patterns of weight <= t / all received words, nearest-codeword oracle",
            "Each decoder (syndrome table, brute-force ML, Berlekamp-Massey, Reed majority, Hamming and RM inverses) runs on every codeword plus every "
            "error pattern up to the advertised t (exhaustive when the product is small, structured otherwise) and complete decoders on all 2^n words; "
            "outputs are compared with the transmitted message / the minimum distance to the encoder's own codebook.", NOTE_GF2, "DESIGN.md §5 C02"),
    "C03": (E1, "exhaustive enumeration of named-family configurations; exact minimum distance by codeword enumeration or MacWilliams transform of the dual",
            "For every named configuration the code is rebuilt from what the encoder outputs, its true (n,k,d) is computed exactly and compared with every "
            "advertised quantity; cyclic families are checked for shift closure and divisibility by the published generator polynomial.", NOTE_GF2, "DESIGN.md §5 C03"),
    "C04": (E1, "bounded-exhaustive enumeration of catalogue x inverse method x layout x all messages; rejection sub-space for non-multiple last dimensions",
            "encode followed by inverse_encode / extract_message / project_word on all messages in every layout (1-D, batches, 3-D, 2..4 blocks per row) must "
            "be the identity with all-zero syndrome; last dimensions that are not multiples must raise.", NOTE_GF2, "DESIGN.md §5 C04"),
    "C05": ("kmc-E1-space+kmc-E2-bfs", "exhaustive enumeration of symbols/pairs/triples/de Bruijn sequences per scheme and layout + explicit-state BFS over call histories of stateful modems",
            "Every scheme/order/labelling: all single symbols, all ordered pairs, triples (M<=8), a de Bruijn sequence and all layouts are modulated and hard "
            "demodulated; for schemes with memory every history of {train, eval, reset, modulate, roundtrip} up to depth 3/4 is explored on real objects "
            "(whole-object state hash) and the round trip must hold after reset+eval from every reached state.",
            "Start-up allowances as stated in the property. Float32 bit tensors.", "DESIGN.md §5 C05"),
    "C06": (E1, "exhaustive enumeration of a dense deterministic grid of received points x noise variances x forms against a float64 max-log reference",
            "Hard decisions must be a nearest point and soft outputs must equal c*(d1^2-d0^2)/sigma^2 with one positive c per scheme on every grid point, "
            "both sides of every decision boundary, six decades of sigma^2 (float / 0-d / per-symbol).",
            "Real-valued input space is continuous: the verdict is for the stated finite grid. Reference uses the scheme's published tables (bijectivity is C14).", "DESIGN.md §5 C06"),
    "C10": (E1, "bounded-exhaustive enumeration of forest parity-check matrices x decoder options x LLR alphabets against brute-force posteriors / soft-ML",
            "BP and min-sum on every forest H (n<=4/5 + shard + trees to n=12): all codewords at six magnitudes, all LLR vectors over a 6-letter alphabet vs "
            "brute-force bitwise posteriors, min-sum rule on single checks, scale invariance; Wagner on every sign pattern x magnitude assignment vs brute-force ML; soft RM.",
            "Float64 brute-force references; Taylor-arctanh mode only required for |LLR|<=0.5; inputs kept inside the decoder's documented clipping ranges.", "DESIGN.md §5 C10"),
    "C14": (E1, "fully exhaustive enumeration of constellations, labels, point pairs and of all integers below 2^16/2^20 for the Gray utilities",
            "All points/labels/pairs of every published constellation; mapper vs table; unit energy; Gray neighbours; Gray utilities for every integer below the bound "
            "and structured integers to 2^60.", "none beyond float tolerances 1e-5", "DESIGN.md §5 C14"),
    "C07": ("kmc-E4-rngseam+kmc-E1-space", "environment-answer enumeration through an RNG seam: complete quantile grids (deterministic quadrature of the noise power) and enumerated answer alphabets (exact scale law)",
            "Every additive-noise stage x parameterisation x real/complex x signal powers x SNRs x shapes is run with every random request answered by the harness; "
            "measured noise power must equal the configured value / faded-signal power over SNR within 0.5 %, the noise must be one scalar times the draws with the "
            "sqrt-power scaling law, supplied noise must be added bit-exactly, and the dB/linear/noise-power conversions and both SNR measuring tools must agree on a dense grid.",
            "torch's generators are i.i.d. with the documented law (only the first two moments are decided). The statistical clause of the property is replaced by exact "
            "structure + quadrature; sampling is outside this technique.", "DESIGN.md §5 C07"),
    "C08": (E1, "bounded-exhaustive enumeration of every vector over a small amplitude alphabet x scales x shapes x ordered batches, every constraint chain up to length 3, float64 re-measurement",
            "Per-item power (never more / equal 0.1 % / positive factor / idempotent / scale invariant / item independent), peak and PAPR limits, composite == sequential for all 155 chains, "
            "factory composites satisfy all limits at once.", "Finite alphabets stand in for the continuous input space; PAPR clause restricted to non-sparse items on which the limit is attainable by clipping.", "DESIGN.md §5 C08"),
    "C09": (E1, "bounded-exhaustive enumeration of links (code x decoder x modem) x all messages x harness-placed fault sequences (every flip pattern of weight <= t, bounded displacements)",
            "ChannelCodeModel pipelines over perfect channels, every symbol displacement of 0.49 dmin in 8 directions (all symbols / each symbol), and every bit-flip pattern of weight <= t per block "
            "realised on the constellation must return the message.", "Memoryless modems only (the pipeline has no reference-symbol stage); Berlekamp-Massey fault clauses on a structured message subset in the quick tier.", "DESIGN.md §5 C09"),
    "C11": (E1, "bounded-exhaustive enumeration of (N,k) x frozen value x interleaving x ranking / every user mask x all messages; every LLR vector over a 4-letter alphabet for SC against a textbook reference",
            "Information set, transform, generator matrix and frozen values against an independent Kronecker/bit-reversal reference and the pinned 5G ranking; SC and BP decoders on noise-free LLRs; "
            "SC decisions on all 4^N (N<=8) / 2^16 (N=16) LLR vectors equal textbook successive cancellation.", "5G ranking pinned by SHA-256 + TS 38.212 prefix + binary domination.", "DESIGN.md §5 C11"),
    "C12": ("kmc-E4-rngseam", "environment-answer enumeration: every input vector x every answer vector over {p-1e-6, p+1e-6} (+ extremes) served through the RNG seam",
            "Support, input integrity, p=0 / p=1 extremes, Z one-sidedness, erasure semantics, and the private-draw law (each eligible symbol is controlled by exactly one draw with threshold p) on every "
            "execution of the enumerated space.", "i.i.d. U(0,1) draws from torch; with that the private-draw law is the property's independence statement.", "DESIGN.md §5 C12"),
    "C13": ("kmc-E4-rngseam+kmc-E1-space", "environment-answer enumeration: every answer position perturbed in turn (block constancy, private draws) + complete quantile grids for unit gain and K-factor",
            "y = h.x + n with supplied CSI/noise on every fading type x coherence time x shape; block-constant gains; every (item, block) controlled by its own draws; unit mean-square gain and K-factor by "
            "deterministic quadrature; noise calibrated relative to the faded signal.", "i.i.d. N(0,1) draws from torch; gain statistics via quadrature, not sampling.", "DESIGN.md §5 C13"),
    "C15": ("kmc-E1-space+kmc-E2-bfs", "exhaustive enumeration of short bit sequences through every soft demodulator into every LLR consumer; BFS over call histories of stateful thresholders",
            "Sign of every producer's noise-free LLRs, every consumer's decisions on producer output and on synthetic sign patterns at three magnitudes, decoders on modulated codewords, monotone "
            "LLR->probability conversion, polarity after reset from every reached state.", "Data-adaptive thresholders only on rows with both bit values and constant magnitude; Otsu excluded (see DESIGN).", "DESIGN.md §5 C15"),
    "C16": ("kmc-E2-bfs+kmc-E1-space", "explicit-state BFS over update/compute/reset/forward histories on real metric objects with a two-counter reference in lock-step; exhaustive compositions/permutations; all pairs",
            "Every history up to depth 4/6, every composition of a 12-block stream, every permutation of <=4 chunks, every pair of binary vectors up to length 6/8.", "whole-object canonical state for deduplication", "DESIGN.md §5 C16"),
    "C17": ("kmc-E3-sched+kmc-E2-bfs+kmc-E1-space", "schedule exploration: every feasible completion order of the real ThreadPoolExecutor fan-out forced with gates (each replayed twice), cross-checked with a TLA+/TLC executor model; BFS over add/remove/run histories",
            "ParallelModel on all n! (and worker-limited) completion orders with order-sensitive aggregator; sequential/configurable models against a list model; fixed pipelines, branching (all 2^n), feedback rounds, "
            "multiple access (every user->encoder assignment), Wyner-Ziv stage orders.", "Scheduling points are task completions observed by as_completed; TLC validates the feasibility model (thorough).", "DESIGN.md §5 C17"),
    "C19": ("kmc-E1-space+kmc-E4-rngseam", "exhaustive enumeration of a configuration lattice x fixed input alphabet: autograd vs central finite differences under a frozen noise realisation; shape contract over image/batch sizes",
            "Every analog stage / constraint configuration on 3-5 deterministic inputs and 3 losses; every encoder parameter of every bundled architecture receives a finite non-zero gradient through 4 constraints x 4 channels; "
            "latent/output shapes and ranges for sizes {16,32,48,64} x batches {1,2,5}.", "Continuous input space: exhaustive over the lattice only. PAPR is piecewise smooth (finite differences inside one piece).", "DESIGN.md §5 C19"),
    "C20": ("kmc-E1-space+kmc-E2-bfs", "differential exploration: every ordered selection of 1..3/4 pool members, every layout, every call sequence of length <=3 on one object, compared with the member processed alone",
            "54 components (encoders, inverses, decoders, modulators, hard/soft demodulators, constraints) with pools that trigger their special paths.", "bit-exact for GF(2) components, 1e-6/1e-5 for float", "DESIGN.md §5 C20"),
    "C18": (E1,
            "bounded-exhaustive enumeration of operand pairs/triples/elements against an int-bitmask reference model",
            "Every pair of binary polynomials below degree 8 (quick) / 9 (thorough), every triple below degree 5/6, every pair of "
            "GF(2^m) elements for m<=8, every triple for m<=5/6, every element's inverse/power/trace/conjugates/minimal polynomial "
            "for m<=8/10 and a structured set for m<=16, and the modulus + primitive-element order walk for every m in 1..16 are "
            "executed on the real classes and compared with an independent reference; nothing is sampled.",
            "Reference arithmetic in kmc/ref (self-tested against textbook facts by setup_cmd). Degrees/fields above the bounds are "
            "covered only on the structured families listed in the evidence.", "DESIGN.md §5 C18"),
}
PENDING_REASON = "check not built yet in this session (work in progress; see DESIGN.md §5 for the planned exploration)"


def main():
    props = [json.loads(l)["id"] for l in open(os.path.join(ROOT, "properties.jsonl"))]
    checks = []
    for pid in props:
        if pid not in CLAIMED:
            continue
        eng, tech, text, note, ref = CLAIMED[pid]
        checks.append({
            "property_id": pid,
            "quick_cmd": f"./check {pid} --tier quick",
            "thorough_cmd": f"./check {pid} --tier thorough",
            "evidence_file": f"/verif/evidence/{pid}.json",
            "replay_cmd_template": f"./check {pid} --replay {{path}}",
            "engine": eng,
            "level_claimed": {"category": "model_checking", "text": text, "design_ref": ref},
            "level_note": note,
            "technique": tech,
        })
    fixes = []
    try:
        fixes = json.load(open(os.path.join(ROOT, "known_findings.json"))).get("fixed", [])
    except Exception:
        pass
    man = {
        "version": 1,
        "setup_cmd": "cd /verif && ./check --selftest",
        "hooks": {"guard": "KAIRA_VERIF", "enable": "no source hooks: seams are run-time monkey-patches made by the harness (RNG primitives, ThreadPoolExecutor.submit); checks import /repo's working tree through /venv's editable install",
                  "baseline_off_cmd": BASELINE, "source_commits": [], "add_only": True},
        "engines": [
            {"name": "kmc-E1-space", "path": "kmc/engine.py", "serves_properties": [p for p in CLAIMED if "E1" in CLAIMED[p][0]],
             "kind_free_text": "product-space enumerator: configurations x layouts x input alphabets, sharded over a worker pool, reference model compared on every case"},
            {"name": "kmc-E2-bfs", "path": "kmc/bfs.py", "serves_properties": [p for p in CLAIMED if "E2" in CLAIMED[p][0]],
             "kind_free_text": "explicit-state BFS over operation histories on the real object, whole-object canonical state hash, reference stepped in lock-step"},
            {"name": "kmc-E3-sched", "path": "kmc/sched.py", "serves_properties": [p for p in CLAIMED if "E3" in CLAIMED[p][0]],
             "kind_free_text": "schedule explorer: every feasible completion order of a real ThreadPoolExecutor fan-out, forced with gates"},
            {"name": "kmc-E4-rngseam", "path": "kmc/rngseam.py", "serves_properties": [p for p in CLAIMED if "E4" in CLAIMED[p][0]],
             "kind_free_text": "environment-answer enumerator: torch random primitives answered by the harness (enumerated alphabets / quantile grids)"},
        ],
        "checks": checks,
        "notes": "All checks: exit 0 = held on everything explored (KNOWN-FINDING lines for listed open findings), exit 1 + VIOLATION line otherwise, exit 2 = harness error. known_findings.json lists open findings and fixed defects (fix: commits in /repo: "
                 + ", ".join(f.get("commit", "?")[:8] for f in fixes) + ").",
        "not_applicable": [{"property_id": p, "reason": PENDING_REASON} for p in props if p not in CLAIMED],
    }
    with open(os.path.join(ROOT, "MANIFEST.json"), "w") as f:
        json.dump(man, f, indent=1)
    code = ("import json,jsonschema;jsonschema.Draft202012Validator(json.load(open('/root/.vp/MANIFEST.schema.json')))"
            ".validate(json.load(open('%s/MANIFEST.json')));print('MANIFEST valid')" % ROOT)
    subprocess.run(["python3-vt", "-c", code], check=True)


if __name__ == "__main__":
    main()
