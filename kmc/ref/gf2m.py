"""GF(2^m) on ints given a modulus polynomial. Independent of kaira."""
from . import poly2 as P


class Field:
    def __init__(self, m, modulus):
        self.m, self.mod, self.size = m, modulus, 1 << m

    def mul(self, a, b):
        return P.mulmod(a, b, self.mod)

    def pow(self, a, e):
        r = 1
        while e:
            if e & 1:
                r = self.mul(r, a)
            a = self.mul(a, a)
            e >>= 1
        return r

    def order(self, a):
        """Multiplicative order by explicit walk (None if a is not a unit / no cycle through 1)."""
        if a == 0:
            return None
        v, n = a, 1
        while v != 1:
            v = self.mul(v, a)
            n += 1
            if n > self.size:
                return None
        return n

    def conjugates(self, a):
        out, v = [a], self.mul(a, a)
        while v != a and len(out) <= self.m:
            out.append(v)
            v = self.mul(v, v)
        return out

    def trace(self, a):
        t, v = 0, a
        for _ in range(self.m):
            t ^= v
            v = self.mul(v, v)
        return t

    def minpoly(self, a):
        """prod (X - c) over the Frobenius orbit of a; coefficients must land in {0,1}."""
        poly = [1]  # coefficients in the field, low degree first
        for c in self.conjugates(a):
            new = [0] * (len(poly) + 1)
            for i, co in enumerate(poly):
                new[i + 1] ^= co
                new[i] ^= self.mul(co, c)
            poly = new
        if any(co not in (0, 1) for co in poly):
            return None
        return sum(co << i for i, co in enumerate(poly))

    def eval_poly(self, p, a):
        r, pw = 0, 1
        while p:
            if p & 1:
                r ^= pw
            pw = self.mul(pw, a)
            p >>= 1
        return r
