"""GF(2) linear algebra on rows-as-int-bitmasks. Bit j (LSB = column 0) of a row is column j.

Independent of kaira and torch (numpy only for bulk popcounts in weight distributions).
"""
from math import comb


def from_rows(rows):
    """list of 0/1 lists -> list of ints"""
    return [sum((int(b) & 1) << j for j, b in enumerate(r)) for r in rows]


def to_rows(M, n):
    return [[(r >> j) & 1 for j in range(n)] for r in M]


def vec(bits):
    return sum((int(b) & 1) << j for j, b in enumerate(bits))


def bits(v, n):
    return [(v >> j) & 1 for j in range(n)]


def rref(M):
    """Reduced row echelon form w.r.t. lowest-column-first pivots; returns (rows, pivots)."""
    M = [r for r in M]
    piv = []
    r = 0
    ncols = max((x.bit_length() for x in M), default=0)
    for c in range(ncols):
        p = None
        for i in range(r, len(M)):
            if (M[i] >> c) & 1:
                p = i
                break
        if p is None:
            continue
        M[r], M[p] = M[p], M[r]
        for i in range(len(M)):
            if i != r and (M[i] >> c) & 1:
                M[i] ^= M[r]
        piv.append(c)
        r += 1
        if r == len(M):
            break
    return [x for x in M if x], piv


def rank(M):
    return len(rref(M)[0])


def same_rowspace(A, B):
    return rref(A)[0] == rref(B)[0]


def in_span(v, R_piv):
    """v in span of an RREF basis (rows, pivots)?"""
    R, piv = R_piv
    for row, c in zip(R, piv):
        if (v >> c) & 1:
            v ^= row
    return v == 0


def nullspace(M, n):
    """Basis of {x : M x^T = 0} as bitmasks of length n."""
    R, piv = rref(M)
    free = [c for c in range(n) if c not in piv]
    basis = []
    for f in free:
        v = 1 << f
        for row, c in zip(R, piv):
            if (row >> f) & 1:
                v |= 1 << c
        basis.append(v)
    return basis


def mat_vec(M, v):
    """M x^T : returns int with bit i = parity(M[i] & v)."""
    return sum((bin(r & v).count("1") & 1) << i for i, r in enumerate(M))


def vec_mat(m, G):
    """message bitmask m (bit i = m_i) times G (rows): XOR of selected rows."""
    c = 0
    i = 0
    while m:
        if m & 1:
            c ^= G[i]
        m >>= 1
        i += 1
    return c


def span(G):
    """All 2^k codewords in Gray-code order (list of ints); index is NOT the message."""
    out = [0]
    cur = 0
    for i in range(1, 1 << len(G)):
        cur ^= G[(i & -i).bit_length() - 1]
        out.append(cur)
    return out


def codebook(G):
    """codeword for every message value m (bit i of m selects row i)."""
    k = len(G)
    cb = [0] * (1 << k)
    for m in range(1, 1 << k):
        low = m & -m
        cb[m] = cb[m ^ low] ^ G[low.bit_length() - 1]
    return cb


def weight_distribution(G, n):
    """Exact weight distribution of span(G) (k <= ~24), numpy popcount in bulk."""
    import numpy as np
    B, _ = rref(G)
    k = len(B)
    A = [0] * (n + 1)
    if k == 0:
        A[0] = 1
        return A
    assert n <= 64
    half = min(k, 16)
    lo = np.array(span(B[:half]), dtype=np.uint64)
    pc = _popcount_table()
    for hv in span(B[half:]):
        w = lo ^ np.uint64(hv)
        cnt = _popcount64(w, pc)
        bc = np.bincount(cnt, minlength=n + 1)
        for i in range(n + 1):
            A[i] += int(bc[i])
    return A


_PC = None


def _popcount_table():
    global _PC
    if _PC is None:
        import numpy as np
        _PC = np.array([bin(i).count("1") for i in range(1 << 16)], dtype=np.int64)
    return _PC


def _popcount64(w, pc):
    import numpy as np
    m = np.uint64(0xFFFF)
    return (pc[(w & m).astype(np.int64)] + pc[((w >> np.uint64(16)) & m).astype(np.int64)]
            + pc[((w >> np.uint64(32)) & m).astype(np.int64)] + pc[((w >> np.uint64(48)) & m).astype(np.int64)])


def macwilliams(B, n, k_dual):
    """Weight distribution of the dual of an [n, k_dual]-code with distribution B -> A of the [n, n-k_dual] code.
    A_j = 2^-k_dual * sum_i B_i K_j(i), K_j(i) = sum_s (-1)^s C(i,s) C(n-i,j-s). Exact integers."""
    A = []
    for j in range(n + 1):
        tot = 0
        for i, b in enumerate(B):
            if b == 0:
                continue
            kj = 0
            for s in range(0, j + 1):
                if s <= i and j - s <= n - i:
                    kj += (-1) ** s * comb(i, s) * comb(n - i, j - s)
            tot += b * kj
        assert tot % (1 << k_dual) == 0
        A.append(tot // (1 << k_dual))
    return A


def min_distance(G, n, limit=22):
    """Exact minimum distance of span(G); via the code (k<=limit) or its dual (n-k<=limit). None if undecidable."""
    B, _ = rref(G)
    k = len(B)
    if k == 0:
        return None
    if k <= limit:
        A = weight_distribution(B, n)
    elif n - k <= limit:
        H = nullspace(B, n)
        Bd = weight_distribution(H, n)
        A = macwilliams(Bd, n, n - k)
    else:
        return None
    for w in range(1, n + 1):
        if A[w]:
            return w
    return None


def weight(v):
    return bin(v).count("1")


def patterns_upto(n, t):
    """all error patterns of weight <= t on n positions, weight-ascending."""
    from itertools import combinations
    for w in range(t + 1):
        for pos in combinations(range(n), w):
            yield sum(1 << p for p in pos)
