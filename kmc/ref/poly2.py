"""Binary polynomials as Python ints (bit i = coefficient of x^i). No torch, no kaira."""


def deg(a):
    return a.bit_length() - 1


def mul(a, b):
    r = 0
    while b:
        if b & 1:
            r ^= a
        a <<= 1
        b >>= 1
    return r


def divmod2(a, b):
    if b == 0:
        raise ZeroDivisionError
    q = 0
    db = deg(b)
    while a and deg(a) >= db:
        s = deg(a) - db
        q |= 1 << s
        a ^= b << s
    return q, a


def mod(a, b):
    return divmod2(a, b)[1]


def gcd(a, b):
    while b:
        a, b = b, mod(a, b)
    return a


def egcd(a, b):
    """g, s, t with s*a + t*b == g."""
    s0, s1, t0, t1 = 1, 0, 0, 1
    while b:
        q, r = divmod2(a, b)
        a, b = b, r
        s0, s1 = s1, s0 ^ mul(q, s1)
        t0, t1 = t1, t0 ^ mul(q, t1)
    return a, s0, t0


def lcm(a, b):
    if a == 0 or b == 0:
        return 0
    return divmod2(mul(a, b), gcd(a, b))[0]


def mulmod(a, b, m):
    return mod(mul(a, b), m)


def powmod(a, e, m):
    r = 1
    a = mod(a, m)
    while e:
        if e & 1:
            r = mulmod(r, a, m)
        a = mulmod(a, a, m)
        e >>= 1
    return r


def is_irreducible(p):
    """Trial division by every polynomial of degree 1..deg(p)//2."""
    d = deg(p)
    if d <= 0:
        return False
    for q in range(2, 1 << (d // 2 + 1)):
        if deg(q) >= 1 and mod(p, q) == 0:
            return False
    return True


def is_irreducible_fast(p):
    """Rabin-style test via x^(2^i) mod p; equals trial division (cross-checked in selftest)."""
    d = deg(p)
    if d <= 0:
        return False
    x = 2
    t = x
    for i in range(1, d // 2 + 1):
        t = mulmod(t, t, p)
        if gcd(t ^ x, p) != 1:
            return False
    # x^(2^d) == x mod p
    t = x
    for _ in range(d):
        t = mulmod(t, t, p)
    return mod(t, p) == mod(x, p)


def order_of_x(p):
    """Multiplicative order of x modulo p (p(0)=1), by explicit walk."""
    if p & 1 == 0:
        return None
    v = mod(2, p)
    if deg(p) == 1:  # x mod (x+1) == 1
        return 1
    n = 1
    while v != 1:
        v = mod(v << 1, p)
        n += 1
        if n > (1 << deg(p)):
            return None
    return n


def evaluate_int(p, x):
    """kaira's integer evaluate semantics are XOR of integer powers; reference for that."""
    r, pw = 0, 1
    while p:
        if p & 1:
            r ^= pw
        pw *= x
        p >>= 1
    return r


def derivative(p):
    r = 0
    i = 1
    while (p >> i):
        if (p >> i) & 1 and i % 2 == 1:
            r |= 1 << (i - 1)
        i += 1
    return r


def cyclotomic_cosets(n):
    """2-cyclotomic cosets modulo odd n."""
    seen, out = set(), []
    for s in range(n):
        if s in seen:
            continue
        c, x = [], s
        while x not in c:
            c.append(x)
            x = (2 * x) % n
        seen.update(c)
        out.append(sorted(c))
    return out


def factor(p):
    """Irreducible factors with multiplicity, by trial division in increasing degree."""
    facs = []
    d = 1
    while deg(p) >= 2 * d:
        for q in range(1 << d, 1 << (d + 1)):
            while deg(p) >= d and mod(p, q) == 0:
                facs.append(q)
                p = divmod2(p, q)[0]
        d += 1
    if deg(p) > 0:
        facs.append(p)
    return sorted(facs)


def factor_xn1(n):
    return factor((1 << n) | 1)


def divisors_xn1(n):
    """All divisors of x^n+1 (as ints), sorted."""
    facs = factor_xn1(n)
    divs = {1}
    for f in facs:
        divs |= {mul(d, f) for d in divs}
    target = (1 << n) | 1
    return sorted(d for d in divs if mod(target, d) == 0)
