"""Independent polar-code reference: Kronecker power by bit tricks, bit reversal, textbook SC. No torch, no kaira."""
import math


def kron_row(j, N):
    """row j of F^{(x)m}, F=[[1,0],[1,1]]: G[j][i] = 1 iff the binary digits of i are a subset of those of j."""
    return [1 if (i & j) == i else 0 for i in range(N)]


def transform(u):
    """x = u . F^{(x)m} over GF(2) (list of 0/1)."""
    N = len(u)
    x = [0] * N
    for j, uj in enumerate(u):
        if uj:
            for i in range(N):
                if (i & j) == i:
                    x[i] ^= 1
    return x


def transform_fast(u):
    x = list(u)
    N = len(x)
    h = 1
    while h < N:
        for i in range(0, N, 2 * h):
            for j in range(i, i + h):
                x[j] ^= x[j + h]
        h *= 2
    return x


def bitrev(i, m):
    return int(format(i, f"0{m}b")[::-1], 2) if m else 0


def info_set_from_ranking(Q, N, k):
    """k most reliable positions of the ranking (ascending reliability) restricted to < N"""
    q = [v for v in Q if v < N]
    return sorted(q[N - k:])


def f_sp(a, b):
    t = math.tanh(a / 2) * math.tanh(b / 2)
    t = max(min(t, 1 - 1e-16), -1 + 1e-16)
    return 2 * math.atanh(t)


def f_ms(a, b):
    s = (1 if a > 0 else -1 if a < 0 else 0) * (1 if b > 0 else -1 if b < 0 else 0)
    return s * min(abs(a), abs(b))


def sc_decode(llr, info, frozen_value, regime="sum_product"):
    """textbook SC for x = u F^{(x)m} (no bit reversal). Returns (u_hat list, tie flag)."""
    f = f_sp if regime == "sum_product" else f_ms
    tie = [False]

    def rec(y, inf):
        N = len(y)
        if N == 1:
            if inf[0]:
                if abs(y[0]) < 1e-9:
                    tie[0] = True
                u = 1 if y[0] < 0 else 0
            else:
                u = frozen_value
            return [u], [u]
        h = N // 2
        y1 = [f(y[i], y[i + h]) for i in range(h)]
        u1, x1 = rec(y1, inf[:h])
        y2 = [y[i + h] + (1 - 2 * x1[i]) * y[i] for i in range(h)]
        u2, x2 = rec(y2, inf[h:])
        return u1 + u2, [a ^ b for a, b in zip(x1, x2)] + x2
    u, _ = rec(list(llr), list(info))
    return u, tie[0]


# first 32 entries of 3GPP TS 38.212 Table 5.3.1.2-1 (polar sequence Q_0^{Nmax-1}, ascending reliability)
TS38212_FIRST32 = [0, 1, 2, 4, 8, 16, 32, 3, 5, 64, 9, 6, 17, 10, 18, 128, 12, 33, 65, 20, 256, 34, 24, 36, 7, 129, 66, 512, 11, 40, 68, 130]
