"""Shared catalogue of block codes the library can build (DESIGN §4).

A *spec* is a picklable tuple (family, cfg_string, params). `build(spec)` constructs the real kaira
encoder inside a worker. Enumeration is deterministic and simplest-first.
"""
from itertools import combinations, permutations, product

from kmc.ref import gf2
from kmc.ref import poly2 as P


# ----------------------------------------------------------------------------- helpers
def T(rows, dtype="float32"):
    return {"__tensor__": rows, "dtype": dtype}


def _detensor(v):
    import torch
    if isinstance(v, dict) and "__tensor__" in v:
        return torch.tensor(v["__tensor__"], dtype=getattr(torch, v["dtype"]))
    return v


def infoset_str(s):
    if isinstance(s, str):
        return s
    if isinstance(s, dict):
        return "t" + "".join(f"{i:x}" if i < 16 else f"_{i}_" for i in s["__tensor__"])
    return "l" + "".join(f"{i:x}" if i < 16 else f"_{i}_" for i in s)


def all_fullrank(k, n):
    """every full-rank k x n binary matrix, rows as ints, lexicographic."""
    for rows in product(range(1, 1 << n), repeat=k):
        if gf2.rank(list(rows)) == k:
            yield rows


def rows_to_lists(rows, n):
    return [[(r >> j) & 1 for j in range(n)] for r in rows]


def mat_str(rows, n):
    return f"{len(rows)}x{n}:" + ".".join(format(r, "x") for r in rows)


# ----------------------------------------------------------------------------- builders
def build(spec):
    fam, cfg, prm = spec
    from kaira.models.fec import encoders as E
    kw = {k: _detensor(v) for k, v in prm.items()}
    if fam == "generic":
        return E.LinearBlockCodeEncoder(kw["G"])
    if fam == "systematic":
        return E.SystematicLinearBlockCodeEncoder(parity_submatrix=kw["P"], information_set=kw["info"])
    import torch
    opt = {"dtype": getattr(torch, kw["dtype"])} if "dtype" in kw else {}       # the encoders' own dtype option (dtype-spelling family)
    if fam == "hamming":
        return E.HammingCodeEncoder(mu=kw["mu"], extended=kw["extended"], information_set=kw["info"], **opt)
    if fam == "golay":
        return E.GolayCodeEncoder(extended=kw["extended"], information_set=kw["info"], **opt)
    if fam == "repetition":
        return E.RepetitionCodeEncoder(repetition_factor=kw["n"])
    if fam == "spc":
        if kw.get("via") == "from_length":
            return E.SingleParityCheckCodeEncoder.from_length(kw["k"] + 1)
        return E.SingleParityCheckCodeEncoder(kw["k"])
    if fam == "rm":
        return E.ReedMullerCodeEncoder(kw["r"], kw["m"])
    if fam == "cyclic":
        if "name" in kw:
            return E.CyclicCodeEncoder.create_standard_code(kw["name"], information_set=kw["info"])
        a = {"code_length": kw["n"], "information_set": kw["info"]}
        if kw["form"] in ("g", "both"):
            a["generator_polynomial"] = kw["g"]
        if kw["form"] in ("h", "both"):
            a["check_polynomial"] = kw["h"]
        return E.CyclicCodeEncoder(**a)
    if fam == "bch":
        if "name" in kw:
            return E.BCHCodeEncoder.create_standard_code(kw["name"], information_set=kw["info"])
        if "rate" in kw:
            return E.BCHCodeEncoder.from_design_rate(kw["mu"], kw["rate"], information_set=kw["info"])
        return E.BCHCodeEncoder(mu=kw["mu"], delta=kw["delta"], information_set=kw["info"], **opt)
    if fam == "rs":
        return E.ReedSolomonCodeEncoder(mu=kw["mu"], delta=kw["delta"], information_set=kw["info"], **opt)
    if fam == "ldpc":
        return E.LDPCCodeEncoder(check_matrix=kw["H"])
    raise KeyError(fam)


# ----------------------------------------------------------------------------- families
def generic_small(tier, seed):
    """every full-rank G, k<n<=4 (+ square n<=3); thorough adds n=5."""
    dims = [(1, 2), (1, 3), (2, 3), (1, 4), (2, 4), (3, 4), (1, 1), (2, 2), (3, 3)]
    if tier == "thorough":
        dims += [(1, 5), (2, 5), (3, 5)]
    for k, n in dims:
        for rows in all_fullrank(k, n):
            yield ("generic", f"G={mat_str(rows, n)}", {"G": T(rows_to_lists(rows, n))})
    if tier == "thorough":
        # k=4,n=5: 624 960 matrices; rotating shard of 20 000 per run, each shard enumerated completely
        allm = all_fullrank(4, 5)
        shard = seed % 32
        for i, rows in enumerate(allm):
            if i // 20000 == shard:
                yield ("generic", f"G={mat_str(rows, 5)}", {"G": T(rows_to_lists(rows, 5))})


HAMMING_P = {3: [[1, 1, 0], [1, 0, 1], [0, 1, 1], [1, 1, 1]]}


def _structured_P():
    out = {}
    out["ham74"] = HAMMING_P[3]
    out["spc3"] = [[1], [1], [1]]
    out["rep"] = [[1, 1, 1, 1]]
    out["p2x3"] = [[1, 1, 0], [0, 1, 1]]
    out["p3x3"] = [[1, 1, 0], [0, 1, 1], [1, 1, 1]]
    out["p3x4"] = [[1, 1, 0, 1], [0, 1, 1, 1], [1, 0, 1, 1]]
    out["p6x6"] = [[1, 1, 0, 1, 0, 0], [0, 1, 1, 0, 1, 0], [0, 0, 1, 1, 0, 1], [1, 0, 0, 1, 1, 0], [0, 1, 0, 0, 1, 1], [1, 0, 1, 0, 0, 1]]
    out["p4x6"] = [[1, 1, 1, 0, 0, 0], [0, 0, 1, 1, 1, 0], [1, 0, 0, 0, 1, 1], [0, 1, 0, 1, 0, 1]]
    out["p5x2"] = [[1, 1], [1, 0], [0, 1], [1, 1], [1, 0]]
    return out


def generic_structured(tier, seed):
    """A.[I|P].Pi for A in {id, unit upper-triangular all-ones, companion, anti-identity}, Pi in {id, reversal, rotate-1, even-odd}."""
    for pname, Pm in _structured_P().items():
        k, m = len(Pm), len(Pm[0])
        n = k + m
        base = [(1 << i) | sum(b << (k + j) for j, b in enumerate(Pm[i])) for i in range(k)]
        As = {"id": [1 << i for i in range(k)],
              "ut": [sum(1 << j for j in range(i, k)) for i in range(k)],
              "anti": [1 << (k - 1 - i) for i in range(k)],
              "comp": ([1 << ((i + 1) % k) for i in range(k - 1)] + [(1 << 0) | (1 << (k - 1))]) if k > 1 else [1]}
        perms = {"id": list(range(n)), "rev": list(range(n - 1, -1, -1)), "rot": [(j + 1) % n for j in range(n)],
                 "eo": list(range(0, n, 2)) + list(range(1, n, 2))}
        for an, A in As.items():
            if gf2.rank(A) != k:
                continue
            G1 = [gf2.vec_mat(a, base) for a in A]
            for pn, pi in perms.items():
                rows = [sum(((r >> j) & 1) << pi[j] for j in range(n)) for r in G1]
                yield ("generic", f"G={pname}/{an}/{pn}:{mat_str(rows, n)}", {"G": T(rows_to_lists(rows, n))})


def generic_padded(tier, seed):
    """short codes inside longer frames: generator matrices with unused (all-zero) and repeated coordinates - covering radius beyond n/2, cosets
    whose leader is heavier than t, than n/2 and (nearly) than the redundancy"""
    mats = {"rep3in7": ["1110000"], "rep3in7mid": ["0101100"], "rep2in6": ["010010"], "k2in8": ["10110000", "01101000"], "k2in8tail": ["00001101", "00010110"],
            "k2in6": ["111000", "011100"], "k3in9": ["100110000", "010101000", "001011000"], "dup-cols": ["11110000", "00001111"], "k2in7rep": ["1111000", "0000111"]}
    for name, rows in mats.items():
        yield ("generic", f"G=padded/{name}:{'.'.join(rows)}", {"G": T([[int(c) for c in r] for r in rows])})


def _infosets(k, n, full):
    """information-set options: strings, lists (every ordered k-subset when `full`), tensors."""
    yield "left"
    yield "right"
    if full:
        for sub in combinations(range(n), k):
            for perm in permutations(sub):
                yield list(perm)
        for sub in combinations(range(n), k):
            yield T(list(sub), "int64")
    else:
        seen = []
        cands = [list(range(k - 1, -1, -1)), list(range(n - k, n))[::-1], [(i + 1) % n for i in range(k)],
                 (list(range(0, n, 2)) + list(range(1, n, 2)))[:k], list(range(n - k, n)), list(range(k))]
        for c in cands:
            if len(set(c)) == k and c not in seen:
                seen.append(c)
                yield c
        yield T(list(range(k - 1, -1, -1)), "int64")


def systematic(tier, seed):
    lim = 4 if tier == "quick" else 5
    for k in range(1, 4):
        for m in range(1, 4):
            if k + m > lim or (tier == "quick" and (k > 2 or m > 2)):
                continue
            for bitsP in product([0, 1], repeat=k * m):
                Pm = [list(bitsP[i * m:(i + 1) * m]) for i in range(k)]
                pstr = "".join(map(str, bitsP))
                for info in _infosets(k, k + m, True):
                    yield ("systematic", f"P={k}x{m}:{pstr},info={infoset_str(info)}", {"P": T(Pm), "info": info})


def hamming(tier, seed):
    mus = [2, 3, 4] if tier == "quick" else [2, 3, 4, 5, 6]
    for mu in mus:
        for ext in (False, True):
            n = 2 ** mu - 1 + (1 if ext else 0)
            k = 2 ** mu - mu - 1
            opts = list(_infosets(k, n, False))
            if n <= 8:
                for sub in combinations(range(n), k):
                    if list(sub) not in opts:
                        opts.append(list(sub))
                    rot = list(sub[1:]) + [sub[0]]
                    if k > 1 and rot not in opts and (tier == "thorough" or sum(sub) % 5 == 0):
                        opts.append(rot)
            for info in opts:
                yield ("hamming", f"mu={mu},ext={int(ext)},info={infoset_str(info)}", {"mu": mu, "extended": ext, "info": info})
    for mu in (7, 8):                                    # lengths 127 / 128 / 255 / 256
        for ext in (False, True):
            yield ("hamming", f"mu={mu},ext={int(ext)},info=left", {"mu": mu, "extended": ext, "info": "left"})


def golay(tier, seed):
    for ext in (False, True):
        n = 24 if ext else 23
        for info in ["left", "right", list(range(11, -1, -1)), [(i + 1) % n for i in range(12)], list(range(0, 24, 2))[:12]]:
            yield ("golay", f"ext={int(ext)},info={infoset_str(info)}", {"extended": ext, "info": info})


LONG = (127, 128, 129, 255, 256, 257)     # lengths around the ranges of the 8-bit integer types


def repetition(tier, seed):
    for n in list(range(1, 13)) + list(LONG):
        yield ("repetition", f"n={n}", {"n": n})


def spc(tier, seed):
    for k in list(range(1, 13)) + [n - 1 for n in LONG]:
        yield ("spc", f"k={k}", {"k": k})
    yield ("spc", "k=4,via=from_length", {"k": 4, "via": "from_length"})


def rm(tier, seed):
    M = 4 if tier == "quick" else 6
    for m in range(1, M + 1):
        for r in range(0, m):
            yield ("rm", f"r={r},m={m}", {"r": r, "m": m})
    for r, m in ((0, 7), (1, 7), (0, 8), (1, 8)):      # lengths 128 and 256 with k <= 9
        yield ("rm", f"r={r},m={m}", {"r": r, "m": m})


def cyclic(tier, seed):
    N = 15 if tier == "quick" else 21
    for n in range(2, N + 1):
        target = (1 << n) | 1
        for g in P.divisors_xn1(n):
            d = P.deg(g)
            if not (0 < d < n):
                continue
            h = P.divmod2(target, g)[0]
            for form in ("g", "h", "both"):
                for info in ("left", "right"):
                    if tier == "quick" and n % 2 == 0 and form != "g":
                        continue
                    yield ("cyclic", f"n={n},g={g:#b},form={form},info={info}", {"n": n, "g": g, "h": h, "form": form, "info": info})
    for name in ["Hamming(7,4)", "Simplex(7,3)", "BCH(15,7)", "BCH(15,5)", "Golay(23,12)"]:
        for info in ("left", "right"):
            yield ("cyclic", f"name={name},info={info}", {"name": name, "info": info})
    # arbitrary index-list information sets on two small codes
    for info in ([3, 4, 5, 6], [0, 2, 4, 6], [6, 5, 4, 3], [0, 1, 2, 3]):
        yield ("cyclic", f"n=7,g=0b1011,form=g,info={infoset_str(info)}", {"n": 7, "g": 0b1011, "h": 0b10111, "form": "g", "info": info})


def bose_distances(mu):
    """delta is a Bose distance iff the minimal polynomial set of alpha^1..alpha^(delta-1) grows at delta-1 ... i.e.
    delta-1 is the largest element... computed independently: delta is Bose iff generator for delta differs from the
    generator for delta+1's predecessor; equivalently coset(delta) not in cosets(1..delta-1)."""
    n = (1 << mu) - 1
    cos = P.cyclotomic_cosets(n)
    rep = {}
    for c in cos:
        for x in c:
            rep[x] = c[0]
    out = []
    for delta in range(2, n + 1):
        covered = {rep[i % n] for i in range(1, delta)}
        if delta == n:
            out.append(delta)  # whole-space edge: repetition code
        elif rep[delta % n] not in covered:
            out.append(delta)
    return out


def bch(tier, seed):
    mus = [2, 3, 4] if tier == "quick" else [2, 3, 4, 5, 6]
    for mu in mus:
        adm = set(bose_distances(mu)) | {2}
        for delta in range(2, 2 ** mu):
            for info in ("left", "right"):
                yield ("bch", f"mu={mu},delta={delta},info={info}", {"mu": mu, "delta": delta, "info": info, "admissible": delta in adm})
    names = ["BCH(7,4)", "BCH(15,7)", "BCH(15,5)"] + (["BCH(31,16)", "BCH(31,11)", "BCH(63,36)", "BCH(63,24)"] if tier == "thorough" else [])
    for nm in names:
        yield ("bch", f"name={nm},info=left", {"name": nm, "info": "left"})
    for mu in mus[1:]:
        for rate in (0.2, 0.5, 0.8):
            yield ("bch", f"mu={mu},rate={rate},info=left", {"mu": mu, "rate": rate, "info": "left"})


def rs(tier, seed):
    mus = [2, 3] if tier == "quick" else [2, 3, 4]
    for mu in mus:
        for delta in range(2, 2 ** mu):
            for info in ("left", "right"):
                yield ("rs", f"mu={mu},delta={delta},info={info}", {"mu": mu, "delta": delta, "info": info})


def ldpc(tier, seed):
    """every H in GF(2)^{m x n} whose null space has dimension >= 1 (incl. rank-deficient, duplicate, zero rows)."""
    def allH(m, n):
        for rows in product(range(0, 1 << n), repeat=m):
            if gf2.rank(list(rows)) < n:
                yield rows
    plan = [(1, 2), (2, 2), (1, 3), (2, 3), (3, 3), (1, 4), (2, 4)]
    if tier == "thorough":
        plan += [(3, 4), (1, 5), (2, 5)]
    for m, n in plan:
        for rows in allH(m, n):
            yield ("ldpc", f"H={mat_str(rows, n)}", {"H": T(rows_to_lists(rows, n))})
    # more checks than code bits (redundant checks, m > n): every H in GF(2)^{3x2}, and GF(2)^{4x3} (quick: a rotating quarter)
    for rows in allH(3, 2):
        yield ("ldpc", f"H={mat_str(rows, 2)}", {"H": T(rows_to_lists(rows, 2))})
    for i, rows in enumerate(allH(4, 3)):
        if tier != "quick" or i % 4 == seed % 4:
            yield ("ldpc", f"H={mat_str(rows, 3)}", {"H": T(rows_to_lists(rows, 3))})
    if tier == "quick":
        shard = seed % 8
        for i, rows in enumerate(allH(3, 4)):
            if i % 8 == shard:
                yield ("ldpc", f"H={mat_str(rows, 4)}", {"H": T(rows_to_lists(rows, 4))})
    else:
        shard = seed % 16
        for i, rows in enumerate(allH(3, 5)):
            if i % 16 == shard:
                yield ("ldpc", f"H={mat_str(rows, 5)}", {"H": T(rows_to_lists(rows, 5))})
    # docstring / test matrices of the library
    docs = {
        "doc3x6": [[1, 1, 0, 1, 0, 0], [0, 1, 1, 0, 1, 0], [1, 0, 1, 0, 0, 1]],
        "ex4x8": [[1, 0, 1, 1, 0, 0, 0, 1], [0, 1, 1, 0, 1, 0, 1, 0], [1, 1, 0, 0, 0, 1, 1, 0], [0, 0, 0, 1, 1, 1, 0, 1]],
        "dup3x6": [[1, 1, 0, 1, 0, 0], [1, 1, 0, 1, 0, 0], [0, 0, 1, 0, 1, 1]],
        "zero3x5": [[0, 0, 0, 0, 0], [1, 1, 0, 1, 0], [0, 1, 1, 0, 1]],
        "ham3x7": [[1, 1, 0, 1, 1, 0, 0], [1, 0, 1, 1, 0, 1, 0], [0, 1, 1, 1, 0, 0, 1]],
        # redundant checks: repetition codes given by more pairwise checks than bits (the first n rows do not span the row space)
        "rep6-7checks": [[1, 1, 0, 0, 0, 0], [0, 1, 1, 0, 0, 0], [1, 0, 1, 0, 0, 0], [0, 0, 0, 1, 1, 0], [0, 0, 0, 0, 1, 1], [0, 0, 0, 1, 0, 1], [0, 0, 1, 1, 0, 0]],
        "rep4-6checks": [[1, 1, 0, 0], [1, 0, 1, 0], [0, 1, 1, 0], [1, 0, 0, 1], [0, 1, 0, 1], [0, 0, 1, 1]],
        "ham7x7": [[1, 1, 0, 1, 1, 0, 0], [1, 0, 1, 1, 0, 1, 0], [0, 1, 1, 0, 1, 1, 0], [0, 1, 1, 1, 0, 0, 1], [1, 0, 1, 0, 1, 0, 1], [1, 1, 0, 0, 0, 1, 1], [0, 0, 0, 1, 1, 1, 1]],
    }
    for nm, H in docs.items():
        yield ("ldpc", f"H={nm}", {"H": T(H)})


def dtype_spellings(tier, seed):
    """the SAME matrices handed to the constructors as bool / integer / double tensors: the object must describe the same code (all clauses
    of the property are evaluated on it), or the constructor declines the dtype"""
    dts = ["bool", "int64", "int32", "uint8", "float64"]
    mats = [(n, rows) for k, n in ((2, 3), (2, 4)) for rows in all_fullrank(k, n)]
    mats += [(4, rows) for i, rows in enumerate(all_fullrank(3, 4)) if i % 7 == seed % 7]
    mats += [(6, (0b101011, 0b110101, 0b111100)), (6, (0b010111, 0b111010, 0b100101)), (5, (0b11011, 0b10110)), (7, (0b1101, 0b11010, 0b110100, 0b1101000))]
    for n, rows in mats:
        for dt in dts:
            yield ("generic", f"G={mat_str(rows, n)},dtype={dt}", {"G": T(rows_to_lists(rows, n), dt), "admissible": False})
    for Pm in ([[1, 1, 0], [0, 1, 1]], [[1, 0, 1, 1], [1, 1, 0, 1], [0, 1, 1, 1]], [[1], [1], [1]]):
        for info in ("left", "right"):
            for dt in dts:
                pstr = ".".join("".join(map(str, r)) for r in Pm)
                yield ("systematic", f"P={len(Pm)}x{len(Pm[0])}:{pstr},info={info},dtype={dt}", {"P": T(Pm, dt), "info": info, "admissible": False})
    Hs = {"doc3x6": [[1, 1, 0, 1, 0, 0], [0, 1, 1, 0, 1, 0], [1, 0, 1, 0, 0, 1]], "dup3x6": [[1, 1, 0, 1, 0, 0], [1, 1, 0, 1, 0, 0], [0, 0, 1, 0, 1, 1]],
          "ham3x7": [[1, 1, 0, 1, 1, 0, 0], [1, 0, 1, 1, 0, 1, 0], [0, 1, 1, 1, 0, 0, 1]], "2x4": [[1, 1, 1, 0], [0, 1, 1, 1]]}
    for nm, H in Hs.items():
        for dt in dts:
            yield ("ldpc", f"H={nm},dtype={dt}", {"H": T(H, dt), "admissible": False})
    # the named families' own dtype= option: same code, matrices published in that dtype
    for dt in ("float64", "float16", "int64", "int32", "uint8", "bool"):
        for ext in (False, True):
            for info in ("left", "right"):
                yield ("hamming", f"mu=3,ext={int(ext)},info={info},dtype={dt}", {"mu": 3, "extended": ext, "info": info, "dtype": dt, "admissible": False})
        for mu, delta in ((3, 3), (4, 3), (4, 5), (4, 7)):
            yield ("bch", f"mu={mu},delta={delta},info=left,dtype={dt}", {"mu": mu, "delta": delta, "info": "left", "dtype": dt, "admissible": True, "may_reject": True})
        yield ("golay", f"ext=0,info=left,dtype={dt}", {"extended": False, "info": "left", "dtype": dt, "admissible": False})


def mixing_sequences():
    """configurations of the same class and the same (n, k) but different parameters, to be built and used A, B, A, ... in ONE process:
    state shared between instances (class-level / module-level caches keyed too coarsely) then shows up deterministically"""
    seqs = []
    h = lambda mu, ext, info: ("hamming", f"mu={mu},ext={int(ext)},info={infoset_str(info)}", {"mu": mu, "extended": ext, "info": info})  # noqa: E731
    seqs.append([h(3, False, "left"), h(3, False, "right"), h(3, False, [6, 4, 2, 0]), h(3, False, "left")])
    seqs.append([h(2, True, "left"), h(3, False, "left"), h(3, False, "right"), h(3, True, "left"), h(4, False, "left"), h(4, False, "right")])
    c = lambda n, g, info: ("cyclic", f"n={n},g={g:#b},form=g,info={info}", {"n": n, "g": g, "h": P.divmod2((1 << n) | 1, g)[0], "form": "g", "info": info})  # noqa: E731
    seqs.append([c(7, 0b1011, "left"), c(7, 0b1101, "left"), c(7, 0b1011, "right"), c(7, 0b1011, "left")])
    seqs.append([c(15, 0b10011, "left"), c(15, 0b11111, "left"), c(15, 0b11001, "left"), c(15, 0b10011, "left")])
    g1 = [[1, 0, 0, 1, 1, 0], [0, 1, 0, 1, 0, 1], [0, 0, 1, 0, 1, 1]]
    g2 = [[1, 0, 0, 1, 1, 1], [0, 1, 0, 0, 1, 1], [0, 0, 1, 1, 0, 1]]
    g3 = [[1, 1, 0, 1, 0, 0], [0, 1, 1, 0, 1, 0], [1, 0, 1, 0, 0, 1]]
    gen = lambda nm, rows: ("generic", f"G=mix-{nm}", {"G": T(rows)})  # noqa: E731
    seqs.append([gen("a", g1), gen("b", g2), gen("c", g3), gen("a", g1)])
    sysm = lambda nm, Pm, info: ("systematic", f"P=mix-{nm},info={infoset_str(info)}", {"P": T(Pm), "info": info})  # noqa: E731
    seqs.append([sysm("a", [[1, 1, 0], [0, 1, 1]], "left"), sysm("b", [[1, 0, 1], [1, 1, 1]], "left"), sysm("a", [[1, 1, 0], [0, 1, 1]], "right"), sysm("a", [[1, 1, 0], [0, 1, 1]], "left")])
    seqs.append([("rm", f"r={r},m=3", {"r": r, "m": 3}) for r in (0, 1, 2, 1, 0)])
    seqs.append([("bch", f"mu=4,delta={d},info={i}", {"mu": 4, "delta": d, "info": i, "admissible": True}) for d, i in ((3, "left"), (5, "left"), (5, "right"), (3, "right"), (3, "left"))])
    seqs.append([("ldpc", "H=mix-a", {"H": T([[1, 1, 0, 1, 0, 0], [0, 1, 1, 0, 1, 0], [1, 0, 1, 0, 0, 1]])}), ("ldpc", "H=mix-b", {"H": T([[1, 1, 1, 0, 0, 0], [0, 0, 1, 1, 1, 0], [1, 0, 0, 0, 1, 1]])}),
                 ("ldpc", "H=mix-a", {"H": T([[1, 1, 0, 1, 0, 0], [0, 1, 1, 0, 1, 0], [1, 0, 1, 0, 0, 1]])})])
    # long user matrices that agree on their first 64 columns and differ beyond (n = 72: past the width of a machine word), again A, B, A
    A_ = [[1 if ((7 * r + 3 * c + (r * c) % 5) % 11) < 2 else 0 for c in range(64)] for r in range(8)]
    eye = [[1 if c == r else 0 for c in range(8)] for r in range(8)]
    dual = [[1 if c in (r, r - 1) else 0 for c in range(8)] for r in range(8)]
    cyc_ = [[1 if c in (r, (r + 3) % 8) else 0 for c in range(8)] for r in range(8)]
    lp = lambda nm, tail: ("ldpc", f"H=long-{nm}", {"H": T([a + t_ for a, t_ in zip(A_, tail)])})  # noqa: E731
    seqs.append([lp("a", eye), lp("b", dual), lp("c", cyc_), lp("a", eye)])
    return seqs


def restore_pairs():
    """sequences of configurations of one class and one (n, k): each is restored from the state_dict of its predecessor"""
    seqs = [sq for sq in mixing_sequences() if sq[0][0] != "rm"]
    h = lambda mu, ext, info: ("hamming", f"mu={mu},ext={int(ext)},info={infoset_str(info)}", {"mu": mu, "extended": ext, "info": info})  # noqa: E731
    b = lambda mu, d, info: ("bch", f"mu={mu},delta={d},info={infoset_str(info)}", {"mu": mu, "delta": d, "info": info, "admissible": True})  # noqa: E731
    seqs.append([h(3, True, "left"), h(3, True, [7, 5, 2, 0]), h(3, True, "right"), h(3, True, "left")])
    seqs.append([b(4, 5, [9, 2, 14, 5, 0, 11, 7]), b(4, 5, "left"), b(4, 5, "right"), b(4, 5, [9, 2, 14, 5, 0, 11, 7])])
    seqs.append([("golay", f"ext=0,info={i}", {"extended": False, "info": i}) for i in ("left", "right", "left")])
    return seqs


FAMILIES = {
    "generic": generic_small, "generic-structured": generic_structured, "generic-padded": generic_padded, "systematic": systematic, "hamming": hamming,
    "golay": golay, "repetition": repetition, "spc": spc, "rm": rm, "cyclic": cyclic, "bch": bch, "rs": rs, "ldpc": ldpc, "dtype-spelling": dtype_spellings,
}


def catalogue(tier, seed, families=None):
    for name, fn in FAMILIES.items():
        if families and name not in families:
            continue
        for spec in fn(tier, seed):
            yield spec


def grouped(tier, seed, per_case, families=None, prefix=""):
    """(case_id, [specs]) groups of <= per_case[family] consecutive specs of one family."""
    cur_f, cur, idx = None, [], 0
    for spec in catalogue(tier, seed, families):
        lim = per_case.get(spec[0], per_case.get("*", 20))
        if spec[0] != cur_f or len(cur) >= lim:
            if cur:
                yield f"{prefix}{cur_f}|{idx:04d}|{cur[0][1]}..", cur
                idx += 1
            if spec[0] != cur_f:
                idx = 0
            cur_f, cur = spec[0], []
        cur.append(spec)
    if cur:
        yield f"{prefix}{cur_f}|{idx:04d}|{cur[0][1]}..", cur


# ----------------------------------------------------------------------------- observation helpers (worker side)
class Code:
    """What the encoder *publishes* and *does*, observed through its public API, as bitmask data."""

    def __init__(self, enc):
        import torch
        self.enc = enc
        self.n = int(enc.code_length)
        self.k = int(enc.code_dimension)
        G = enc.generator_matrix
        self.G_shape = tuple(G.shape)
        self.G_binary = bool(((G == 0) | (G == 1)).all())
        self.G = gf2.from_rows((G != 0).to(torch.int64).tolist())
        H = enc.check_matrix
        self.H_shape = tuple(H.shape)
        self.H_binary = bool(((H == 0) | (H == 1)).all()) if H.numel() else True
        self.H = gf2.from_rows((H != 0).to(torch.int64).tolist()) if H.numel() else []

    def encode_ints(self, msgs, dtype=None):
        """encode message ints (bit i = message bit i) in one batched call; returns codeword ints + raw tensor"""
        import torch
        x = torch.tensor([gf2.bits(m, self.k) for m in msgs], dtype=dtype or torch.float32)
        y = self.enc(x)
        return tensor_to_ints(y), y


def tensor_to_ints(y):
    """rows of a 2-D {0,1} tensor -> ints; None for rows with non-binary entries"""
    import torch
    ok = ((y == 0) | (y == 1)).all(dim=-1).tolist()
    rows = (y != 0).to(torch.int64).tolist()
    return [gf2.vec(r) if o else None for r, o in zip(rows, ok)]


def message_set(k, full_limit=12):
    if k <= full_limit:
        return list(range(1 << k))
    s = {0, (1 << k) - 1}
    for i in range(k):
        s.add(1 << i)
        s.add(((1 << k) - 1) ^ (1 << i))
        s.add((1 << (i + 1)) - 1)
        for j in (range(i) if k <= 64 else {i - 1, i // 2, 0} - {i, -1}):     # long codes: a linear number of pairs
            s.add((1 << i) | (1 << j))
    s.add(int("10" * k, 2) & ((1 << k) - 1))
    return sorted(s)
