"""kmc – bounded-exhaustive model checking of ipc-lab/kaira (see /verif/DESIGN.md)."""
