"""Reference-model self-tests against facts that do not come from kaira. Run by MANIFEST.setup_cmd."""
import shutil
import subprocess
import sys


def main():
    from kmc.ref import gf2, poly2 as P
    from kmc.ref.gf2m import Field
    ok = True

    def req(c, what):
        nonlocal ok
        if not c:
            ok = False
            print("SELFTEST FAIL:", what)

    # X^15+1 = (X+1)(X^2+X+1)(X^4+X+1)(X^4+X^3+1)(X^4+X^3+X^2+X+1)
    req(P.factor_xn1(15) == sorted([0b11, 0b111, 0b10011, 0b11001, 0b11111]), "factorisation of X^15+1")
    req(len(P.divisors_xn1(7)) == 8 and len(P.divisors_xn1(15)) == 32, "divisor counts")
    req(all(P.is_irreducible(p) == P.is_irreducible_fast(p) for p in range(2, 1 << 10)), "irreducibility tests agree")
    # known primitive trinomials / pentanomials
    for m, p in [(2, 0b111), (3, 0b1011), (4, 0b10011), (5, 0b100101), (7, 0b10000011), (15, (1 << 15) | 3)]:
        req(P.order_of_x(p) == (1 << m) - 1, f"x^{m} primitive poly")
    req(P.order_of_x(0b11111) == 5, "x^4+x^3+x^2+x+1 has order 5 (irreducible, not primitive)")
    g, s, t = P.egcd(0b110101, 0b1011)
    req(P.mul(s, 0b110101) ^ P.mul(t, 0b1011) == g == P.gcd(0b110101, 0b1011), "egcd identity")
    # Hamming(7,4) weight enumerator 1 + 7x^3 + 7x^4 + x^7
    G = gf2.from_rows([[1, 0, 0, 0, 1, 1, 0], [0, 1, 0, 0, 1, 0, 1], [0, 0, 1, 0, 0, 1, 1], [0, 0, 0, 1, 1, 1, 1]])
    req(gf2.weight_distribution(G, 7) == [1, 0, 0, 7, 7, 0, 0, 1], "Hamming(7,4) weight distribution")
    H = gf2.nullspace(G, 7)
    req(gf2.rank(H) == 3 and all(gf2.mat_vec(H, c) == 0 for c in gf2.span(G)), "nullspace")
    req(gf2.macwilliams(gf2.weight_distribution(H, 7), 7, 3) == [1, 0, 0, 7, 7, 0, 0, 1], "MacWilliams on the simplex code")
    # Golay(23,12): A7=253, A8=506, A11=A12=1288 ; generator polynomial x^11+x^10+x^6+x^5+x^4+x^2+1
    g = 0b110001110101
    req(P.mod((1 << 23) | 1, g) == 0, "Golay generator divides x^23+1")
    Gg = [g << i for i in range(12)]
    A = gf2.weight_distribution(Gg, 23)
    req(A[7] == 253 and A[8] == 506 and A[11] == 1288 and A[12] == 1288 and sum(A) == 4096 and A[1:7] == [0] * 6, "Golay weight enumerator")
    req(gf2.min_distance(Gg, 23) == 7, "Golay d=7")
    req(gf2.min_distance(Gg, 23, limit=11) == 7, "Golay d=7 via dual + MacWilliams")
    # GF(16) with x^4+x+1: minimal polynomial of alpha^3 is x^4+x^3+x^2+x+1, of alpha^5 is x^2+x+1
    F = Field(4, 0b10011)
    req(F.minpoly(F.pow(2, 3)) == 0b11111 and F.minpoly(F.pow(2, 5)) == 0b111 and F.minpoly(2) == 0b10011, "GF(16) minimal polynomials")
    req(F.order(2) == 15 and F.trace(1) == 0 and F.trace(F.pow(2, 3)) == 1, "GF(16) order/trace")
    try:
        from kmc.ref import selftest_more
        ok = selftest_more.run(req) and ok
    except ImportError:
        pass
    # environment
    import kmc.preload  # noqa: F401  (torch + kaira importable)
    req(shutil.which("python3-vt") is not None, "python3-vt on PATH (jsonschema validation)")
    r = subprocess.run(["python3-vt", "-c", "import jsonschema"], capture_output=True)
    req(r.returncode == 0, "jsonschema in python3-vt")
    print("selftest", "OK" if ok else "FAILED")
    sys.exit(0 if ok else 1)


if __name__ == "__main__":
    main()
