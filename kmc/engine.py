"""Runner shared by all property checks.

A property module (kmc.props.cNN) provides

    PID        = "C01"
    ENGINE     = "kmc-E1-space"            # informational
    RULE       = "how cases are enumerated / what counts as non-trivial"
    ASSUME     = [ ... ]                   # assumptions / trusted base
    def cases(tier, seed) -> iterable of (case_id:str, payload:picklable)
    def execute(payload, res) -> None      # runs the real kaira code, fills `res`

`execute` runs in a long-lived worker process that already imported torch+kaira.
Everything observable about a run is accumulated in a `Res` and merged by the parent
in canonical case-id order, so the verdict does not depend on worker scheduling.
"""
from __future__ import annotations

import fnmatch
import hashlib
import importlib
import json
import multiprocessing as mp
import os
import signal
import subprocess
import sys
import time
import traceback

ROOT = os.path.dirname(os.path.dirname(os.path.abspath(__file__)))
KF_PATH = os.path.join(ROOT, "known_findings.json")
EVID_DIR = os.environ.get("VERIF_EVIDENCE_DIR") or os.path.join(ROOT, "evidence")      # (the override is used only when seeded changes are evaluated)
REPLAY_DIR = os.path.join(ROOT, "replays")
SCHEMA = "/root/.vp/EVIDENCE.schema.json"


class CaseTimeout(Exception):
    pass


def _alarm(signum, frame):  # pragma: no cover
    raise CaseTimeout()


class Res:
    """Accumulator for one case (worker side) – plain data, picklable."""

    def __init__(self, pid, case_id):
        self.pid = pid
        self.case_id = case_id
        self.evaluations = 0      # inputs / executions tried
        self.nontrivial = 0       # distinct non-trivial ones (module's RULE)
        self.states = 0           # distinct explored states / (config, input) points
        self.transitions = 0      # calls into kaira
        self.traces = 0           # traces compared against the reference model
        self.rejected = 0         # kaira raised where raising is allowed/expected
        self.undecided = 0
        self.seam_bypassed = 0
        self.outcomes = set()     # distinct observed outcomes (short strings, capped)
        self.violations = []      # dicts
        self.samples = []
        self.extra = {}
        self.error = None

    def ev(self, n=1, nontrivial=None, states=None, transitions=None, traces=None):
        self.evaluations += n
        self.nontrivial += n if nontrivial is None else nontrivial
        self.states += n if states is None else states
        self.transitions += n if transitions is None else transitions
        self.traces += n if traces is None else traces

    def outcome(self, o):
        if len(self.outcomes) < 4096:
            self.outcomes.add(str(o)[:80])

    def sample(self, s):
        if len(self.samples) < 2:
            self.samples.append(s)

    def viol(self, component, config, clause, detail, focus=None):
        """Record a violation. key = PID|component|config|clause."""
        key = f"{self.pid}|{component}|{config}|{clause}"
        for v in self.violations:
            if v["key"] == key:
                v["count"] += 1
                return
        self.violations.append({
            "key": key, "component": component, "config": config, "clause": clause,
            "detail": str(detail)[:600], "focus": focus, "count": 1, "case_id": self.case_id,
        })

    def bump(self, name, n=1):
        self.extra[name] = self.extra.get(name, 0) + n


_MOD = {}

# Sub-packages of kaira whose module-level / class-level state is reset before every case (and between the forward and the reverse pass of
# a case): the history of the long-lived worker process is a source of nondeterminism for state shared between instances. Base classes and
# registries are kept, so that isinstance checks between freshly imported and already imported modules keep working.
PURGE = ["kaira.models.fec", "kaira.modulations", "kaira.models.binary", "kaira.models.generic", "kaira.channels", "kaira.constraints", "kaira.metrics.signal"]
KEEP_SUFFIX = (".base", ".registry")


def fresh_kaira():
    """forget the purgeable kaira modules: the next import re-executes them (fresh class objects, fresh class-level caches)"""
    under = lambda name: any(name == p or name.startswith(p + ".") for p in PURGE)  # noqa: E731
    try:
        from kaira.metrics.registry import MetricRegistry
        from kaira.models.registry import ModelRegistry
        for reg in (ModelRegistry._models, MetricRegistry._metrics):
            for k in [k for k, c in reg.items() if under(getattr(c, "__module__", "")) and not getattr(c, "__module__", "").endswith(KEEP_SUFFIX)]:
                del reg[k]
    except Exception:  # noqa: BLE001  (registries changed shape: purge what we can)
        pass
    for k in [k for k in sys.modules if under(k) and not k.endswith(KEEP_SUFFIX)]:
        del sys.modules[k]


def _module(pid):
    if pid not in _MOD:
        _MOD[pid] = importlib.import_module(f"kmc.props.{pid.lower()}")
    return _MOD[pid]


def _worker_init(inproc=False):
    import resource
    import torch
    lim = int(os.environ.get("VERIF_WORKER_MEM_GB", "10")) << 30
    try:  # a runaway allocation inside the library becomes a Python exception, not an OOM kill
        if not inproc:
            resource.setrlimit(resource.RLIMIT_AS, (lim, lim))
    except (ValueError, OSError):
        pass
    torch.set_num_threads(1)
    torch.set_grad_enabled(False)
    signal.signal(signal.SIGALRM, _alarm)
    # the library prints progress messages from constructors; keep the check's stdout for verdict lines only
    try:
        if not inproc:
            devnull = os.open(os.devnull, os.O_WRONLY)
            os.dup2(devnull, 1)
    except OSError:
        pass
    import warnings
    warnings.filterwarnings("ignore")


def _classify_exc(tb_list):
    """Innermost frame outside kmc: in kaira/torch => the library raised."""
    for fr in reversed(tb_list):
        fn = fr.filename
        if "/kmc/" in fn:
            continue
        return "kaira" if ("/kaira/" in fn or "/torch/" in fn) else "other"
    return "kmc"


def run_case(args):
    pid, case_id, payload, horizon = args
    import torch
    res = Res(pid, case_id)
    mod = _module(pid)
    torch.manual_seed(0)
    torch.set_grad_enabled(False)
    if not getattr(mod, "KEEP_MODULES", False):
        fresh_kaira()
    t0 = time.time()
    signal.alarm(int(horizon))
    try:
        mod.execute(payload, res)
    except CaseTimeout:
        comp = getattr(mod, "component_of", lambda p: "harness")(payload)
        res.viol(comp, case_id.split("|", 1)[-1], "hang", f"case exceeded horizon of {horizon}s")
    except Exception as e:  # an exception that escaped the property's own handling
        tb = traceback.extract_tb(e.__traceback__)
        where = _classify_exc(tb)
        comp = getattr(mod, "component_of", lambda p: "harness")(payload)
        txt = f"{type(e).__name__}: {e} @ " + " <- ".join(f"{os.path.basename(f.filename)}:{f.lineno}" for f in list(reversed(tb))[:5])
        res.viol(comp, case_id.split("|", 1)[-1], "raises" if where == "kaira" else "oracle-crash", txt)
    finally:
        signal.alarm(0)
    res.extra["wall"] = time.time() - t0
    res.outcomes = sorted(res.outcomes)
    return res


def load_findings(pid):
    with open(KF_PATH) as f:
        kf = json.load(f)
    return [e for e in kf.get("findings", []) if e["property"] == pid and e.get("status", "open") == "open"]


def match_finding(key, findings):
    for e in findings:
        pats = e["key"] if isinstance(e["key"], list) else [e["key"]]
        for p in pats:
            if fnmatch.fnmatchcase(key, p):
                return e
    return None


def validate_evidence(path):
    code = (
        "import json,sys,jsonschema;"
        f"s=json.load(open({SCHEMA!r}));d=json.load(open(sys.argv[1]));"
        "jsonschema.Draft202012Validator(s).validate(d)"
    )
    try:
        r = subprocess.run(["python3-vt", "-c", code, path], capture_output=True, text=True, timeout=120)
    except FileNotFoundError:
        return True, "python3-vt not found; schema validation skipped"
    return r.returncode == 0, (r.stderr or "")[-800:]


def _jsonable(x):
    try:
        json.dumps(x)
        return x
    except TypeError:
        return repr(x)


def main_run(pid, tier, seed, jobs, only=None, replay=None):
    t0 = time.time()
    mod = _module(pid)
    horizon = int(os.environ.get("VERIF_HORIZON", getattr(mod, "HORIZON", {}).get(tier, 60 if tier == "quick" else 600)))

    if replay:
        with open(replay) as f:
            rp = json.load(f)
        caselist = [(rp["case_id"], rp["payload"])]
    else:
        caselist = list(mod.cases(tier, seed))
        if only:
            caselist = [c for c in caselist if fnmatch.fnmatchcase(c[0], only)]
    ids = [c[0] for c in caselist]
    assert len(set(ids)) == len(ids), "duplicate case ids: " + str([i for i in ids if ids.count(i) > 1][:3])

    work = [(pid, cid, payload, horizon) for cid, payload in caselist]
    if hasattr(mod, "cost"):            # longest cases first (shorter tail on the worker pool); results are re-sorted into declaration order below
        work.sort(key=lambda w: -mod.cost(w[2]))
    results = []
    if jobs <= 1 or len(work) <= 1 or getattr(mod, "INPROCESS", False):
        import contextlib
        import io
        import kmc.preload  # noqa: F401
        _worker_init(inproc=True)
        for w in work:
            with contextlib.redirect_stdout(io.StringIO()):      # the library prints progress messages
                r = run_case(w)
            results.append(r)
    else:
        from concurrent.futures import ProcessPoolExecutor, as_completed
        from concurrent.futures.process import BrokenProcessPool
        ctx = mp.get_context("forkserver")
        ctx.set_forkserver_preload(["kmc.preload"])
        with ProcessPoolExecutor(min(jobs, len(work)), mp_context=ctx, initializer=_worker_init) as pool:
            futs = {pool.submit(run_case, w): w[1] for w in work}
            try:
                for f in as_completed(futs):
                    results.append(f.result())
            except BrokenProcessPool:
                done = {r.case_id for r in results}
                lost = [c for c in ids if c not in done]
                print(f"HARNESS-ERROR a worker process died (killed / out of memory); {len(lost)} cases unfinished, first: {lost[:3]}")
                return 2
    order = {cid: i for i, cid in enumerate(ids)}
    results.sort(key=lambda r: order[r.case_id])

    findings = load_findings(pid)
    payload_of = dict(caselist)
    viols = []
    for r in results:
        viols.extend(r.violations)

    known_seen = {}
    groups = {}
    for v in viols:
        e = match_finding(v["key"], findings)
        if e is not None:
            k = json.dumps(e["key"])
            known_seen.setdefault(k, [e, 0, v])
            known_seen[k][1] += v["count"]
        else:
            groups.setdefault((v["component"], v["clause"]), []).append(v)

    if replay:
        want = rp.get("key")
        hit = [v for v in viols if want is None or v["key"] == want]
        for v in hit:
            print(f"REPLAY still fails: {v['key']} :: {v['detail']}")
        if not hit:
            print("REPLAY passes: no violation with key", want)
        return 1 if hit else 0

    for k, (e, n, v) in sorted(known_seen.items()):
        print(f"KNOWN-FINDING: property={pid} {e['key'] if isinstance(e['key'], str) else e['key'][0]} :: {e['what']} [{n} observations, e.g. {v['key']}]")

    dump = os.environ.get("VERIF_DUMP_KEYS")
    if dump:
        with open(dump, "w") as f:
            for v in viols:
                f.write(("K " if match_finding(v["key"], findings) else "N ") + v["key"] + " :: " + v["detail"][:200] + "\n")
    n_new = 0
    for (comp, clause), vs in sorted(groups.items()):
        for i, v in enumerate(vs[:3]):
            h = hashlib.sha1(v["key"].encode()).hexdigest()[:12]
            d = os.path.join(REPLAY_DIR, pid)
            os.makedirs(d, exist_ok=True)
            path = os.path.join(d, f"{h}.json")
            with open(path, "w") as f:
                json.dump({"property": pid, "key": v["key"], "case_id": v["case_id"], "component": comp,
                           "clause": clause, "detail": v["detail"], "focus": _jsonable(v["focus"]),
                           "payload": _jsonable(payload_of[v["case_id"]])}, f, indent=1)
            if i == 0:
                print(f"VIOLATION property={pid} replay={path}")
                print(f"  key={v['key']} ({len(vs)} keys in this group) :: {v['detail']}")
        n_new += len(vs)

    # ---------------- evidence
    tot = lambda a: sum(getattr(r, a) for r in results)  # noqa: E731
    outcomes = set()
    for r in results:
        outcomes.update(r.outcomes)
    samples = []
    for r in (results[:1] + results[len(results) // 2:len(results) // 2 + 1] + results[-1:]):
        for s in r.samples[:1]:
            samples.append({"case": r.case_id, "sample": _jsonable(s)})
    if not samples:
        samples = [{"case": cid} for cid in ids[:3]]
    extra = {}
    for r in results:
        for k, v in r.extra.items():
            if k != "wall":
                extra[k] = extra.get(k, 0) + v
    caps = getattr(mod, "caps_hit", lambda t: [])(tier)
    slow = sorted(((r.extra.get("wall", 0), r.case_id) for r in results), reverse=True)[:8]
    ev = {
        "property_id": pid, "tier": tier, "seed": int(seed), "level": "model_checking",
        "coverage": {
            # every executed case is at least one explored point, even if the library raised before any comparison could be made
            "states": max(tot("states"), len(results)), "transitions": max(tot("transitions"), len(results)),
            "traces_validated_against_impl": tot("traces"),
            "samples": samples,
            "evaluations": max(tot("evaluations"), len(results)), "distinct_nontrivial": tot("nontrivial"),
            "rule": getattr(mod, "RULE", ""),
            "exhaustive": not caps,
            "cases": len(results), "bounds": getattr(mod, "bounds", lambda t: {})(tier),
            "distinct_outcomes": len(outcomes), "rejected": tot("rejected"), "undecided": tot("undecided"),
            "seam_bypassed": tot("seam_bypassed"),
            "known_findings_seen": sorted(str(json.loads(k)) for k in known_seen),
            "caps_hit": caps, "counters": extra, "engine": getattr(mod, "ENGINE", ""),
            "slowest_cases": [{"s": round(w, 2), "case": c} for w, c in slow],
        },
        "assumptions": list(getattr(mod, "ASSUME", [])),
        "wall_s": round(time.time() - t0, 2),
        "violations": n_new,
    }
    os.makedirs(EVID_DIR, exist_ok=True)
    epath = os.path.join(EVID_DIR, f"{pid}.json")
    with open(epath, "w") as f:
        json.dump(ev, f, indent=1, default=repr)
    ok, msg = validate_evidence(epath)
    c = ev["coverage"]
    print(f"SUMMARY {pid} tier={tier} seed={seed} cases={len(results)} evaluations={c['evaluations']} states={c['states']} "
          f"transitions={c['transitions']} traces={c['traces_validated_against_impl']} outcomes={c['distinct_outcomes']} "
          f"rejected={c['rejected']} known={len(known_seen)} new_violation_keys={n_new} wall={ev['wall_s']}s")
    if not ok:
        print("HARNESS-ERROR evidence does not validate:", msg)
        return 2
    if c["states"] < 1 or c["transitions"] < 1:
        print("HARNESS-ERROR vacuous run (no states/transitions)")
        return 2
    return 1 if n_new else 0


def cli(argv=None):
    import argparse
    ap = argparse.ArgumentParser()
    ap.add_argument("pid")
    ap.add_argument("--tier", default=os.environ.get("VERIF_TIER", "quick"), choices=["quick", "thorough"])
    ap.add_argument("--seed", type=int, default=int(os.environ.get("VERIF_SEED", "0") or 0))
    ap.add_argument("--jobs", type=int, default=int(os.environ.get("VERIF_JOBS", "14")))
    ap.add_argument("--only", default=None, help="fnmatch on case ids")
    ap.add_argument("--replay", default=None)
    a = ap.parse_args(argv)
    sys.exit(main_run(a.pid.upper(), a.tier, a.seed, a.jobs, a.only, a.replay))


if __name__ == "__main__":
    cli()
