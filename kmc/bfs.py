"""E2 – explicit-state breadth-first search over operation histories on real objects (DESIGN §2.2).

A state is the history that reaches it. `build()` returns a fresh system (any object / tuple of objects); ops are
callables applied to it. For every transition a *fresh* system is built and the history replayed, so executions never
alias. `canon` is the WHOLE observable object state (buffers, parameters, training flag, plain attributes,
recursively) – two histories are merged only if the implementation itself cannot tell them apart.
"""
import numbers


def _round(x):
    if isinstance(x, complex):
        return (round(x.real, 9), round(x.imag, 9))
    if isinstance(x, float):
        return round(x, 9)
    return x


def canon_value(v, depth=0):
    import torch
    if isinstance(v, torch.Tensor):
        t = v.detach()
        flat = t.reshape(-1).tolist()
        return ("T", str(t.dtype), tuple(t.shape), tuple(_round(x) for x in flat))
    if isinstance(v, (bool, str, type(None))) or isinstance(v, numbers.Number):
        return _round(v)
    if isinstance(v, (list, tuple)):
        return tuple(canon_value(x, depth + 1) for x in v)
    if isinstance(v, dict):
        return tuple(sorted((str(k), canon_value(x, depth + 1)) for k, x in v.items()))
    if isinstance(v, torch.nn.Module):
        return canon_module(v, depth + 1)
    if callable(v):
        return ("callable", getattr(v, "__qualname__", type(v).__name__))
    if depth < 3 and hasattr(v, "__dict__"):
        return (type(v).__name__, tuple(sorted((k, canon_value(x, depth + 1)) for k, x in vars(v).items() if not k.startswith("__"))))
    return ("obj", type(v).__name__)


SKIP = {"_backward_hooks", "_forward_hooks", "_forward_pre_hooks", "_state_dict_hooks", "_load_state_dict_pre_hooks", "_modules",
        "_parameters", "_buffers", "_non_persistent_buffers_set", "_backward_pre_hooks", "_forward_hooks_with_kwargs",
        "_forward_hooks_always_called", "_forward_pre_hooks_with_kwargs", "_state_dict_pre_hooks", "_load_state_dict_post_hooks",
        "_is_full_backward_hook", "_compiled_call_impl"}


def canon_module(m, depth=0):
    items = [("training", m.training), ("class", type(m).__name__)]
    for n, b in m.named_buffers(recurse=False):
        items.append(("buf:" + n, canon_value(b)))
    for n, p in m.named_parameters(recurse=False):
        items.append(("par:" + n, canon_value(p)))
    for k, v in vars(m).items():
        if k in SKIP or k == "training":
            continue
        items.append(("attr:" + k, canon_value(v, depth + 1)))
    for n, c in m.named_children():
        items.append(("child:" + n, canon_module(c, depth + 1)))
    return tuple(items)


import os as _os
REMEMBER_OPS = _os.environ.get("KMC_BFS_REMEMBER_OPS", "1") != "0"


def explore(build, ops, depth, canon, on_transition, stats=None):
    """ops: list of (name, fn(system) -> observation). on_transition(history_names, system, observation_or_exception).
    Returns dict(states, transitions, max_depth)."""
    # the key of a state is its canonical form PLUS the set of operations applied so far: a memo kept where the canonical form cannot see it (a
    # functools cache on a method, a module-level table) distinguishes two histories only through the operations they contain, so histories
    # are merged only when they agree on both (finer than necessary for correct code - it costs states, never soundness)
    _canon0 = canon
    _applied = [frozenset()]

    def canon(system):  # noqa: F811
        return (_canon0(system), _applied[0]) if REMEMBER_OPS else _canon0(system)
    seen = {canon(build())}
    frontier = [()]
    transitions = 0
    maxd = 0
    while frontier:
        hist = frontier.pop(0)
        for i, (name, fn) in enumerate(ops):
            system = build()
            for j in hist:
                try:
                    ops[j][1](system)
                except Exception:  # noqa: BLE001  (already reported when that transition was first explored)
                    pass
            try:
                obs = fn(system)
            except Exception as e:  # noqa: BLE001
                obs = e
            transitions += 1
            names = tuple(ops[j][0] for j in hist) + (name,)
            _applied[0] = frozenset(hist) | {i}
            k = canon(system)
            on_transition(names, system, obs)
            maxd = max(maxd, len(names))
            if k not in seen:
                seen.add(k)
                if len(names) < depth:
                    frontier.append(hist + (i,))
    out = {"states": len(seen), "transitions": transitions, "max_depth": maxd}
    if stats is not None:
        for k, v in out.items():
            stats[k] = stats.get(k, 0) + v if k != "max_depth" else max(stats.get(k, 0), v)
    return out
