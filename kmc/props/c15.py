"""C15 – one LLR polarity everywhere: positive means bit 0, negative means bit 1 (E1 + E2)."""
from itertools import product

from kmc import bfs
from kmc import catalogue as C
from kmc import modcat as MC
from kmc.ref import gf2

PID = "C15"
ENGINE = "kmc-E1-space + kmc-E2-bfs"
RULE = ("every soft demodulator (all schemes/orders/options) at sigma^2 in {1e-2,1,1e2} on EVERY bit sequence of <= 8 bits (quick) / 12 (thorough) that fits "
        "its symbol size -> sign check and -> EVERY LLR consumer (thresholders in LLR mode, repetition soft decoder, llr_to_bits, sign_to_bin, BP / min-sum / "
        "Wagner / SC / polar-BP / soft-RM decoders on every codeword of a small code); synthetic: every sign pattern of length <= 6 x magnitude in "
        "{1e-3,1,1e3} into every consumer; stateful consumers: BFS over call histories with reset; a state is one (producer, consumer, sequence) "
        "evaluation; non-trivial = sequence contains a 1")
ASSUME = ["data-adaptive thresholders (mean/median/otsu, dynamic) are only required to show the polarity on sequences containing both bit values (median: in equal numbers)",
          "hysteresis thresholder: only outside its dead band (|LLR| >= 1)"]
HORIZON = {"quick": 300, "thorough": 2400}
SIG2 = [1e-2, 1.0, 1e2]


def bounds(tier):
    return {"bits_per_sequence": 8 if tier == "quick" else 12, "sigma2": SIG2, "synthetic_pattern_length": "1..6", "magnitudes": [1e-3, 1.0, 1e3]}


def cases(tier, seed):
    groups = {}
    for spec in MC.schemes(tier, with_registry=False):
        if spec[0] == "identity":
            continue
        groups.setdefault((spec[0], spec[2].get("order", spec[2].get("bits_per_symbol"))), []).append(spec)
    for (scheme, order), specs in groups.items():
        yield f"C15|producer|{scheme}|order={order}", {"kind": "producers", "specs": specs, "tier": tier}
    yield "C15|consumer|synthetic", {"kind": "synthetic", "tier": tier}
    yield "C15|consumer|stateful-bfs", {"kind": "stateful", "tier": tier}
    for dec in ("bp", "minsum", "wagner", "sc", "polar-bp", "soft-rm", "bp-irregular", "minsum-irregular"):
        yield f"C15|decoder|{dec}", {"kind": "decoder", "dec": dec, "tier": tier}


def component_of(p):
    return p["specs"][0][0] if p["kind"] == "producers" else p.get("dec", "thresholders")


def execute(p, res):
    {"producers": producers_case, "synthetic": synthetic_case, "stateful": stateful_case, "decoder": decoder_case}[p["kind"]](p, res)


# ----------------------------------------------------------------------------- consumers
def stateless_consumers():
    """name -> (factory, rule) ; rule in {'any', 'both', 'balanced', 'both-ge1', 'ge1'}"""
    import torch
    from kaira.models.binary import soft_bit_thresholding as S
    from kaira.models.fec.utils import llr_to_bits, sign_to_bin
    L = S.InputType.LLR
    cons = {
        "FixedThresholder": (lambda: S.FixedThresholder(threshold=0.0, input_type=L), "any"),
        "AdaptiveThresholder(mean)": (lambda: S.AdaptiveThresholder(method="mean", input_type=L), "both"),
        "AdaptiveThresholder(median)": (lambda: S.AdaptiveThresholder(method="median", input_type=L), "balanced"),
        # AdaptiveThresholder(method="otsu") is not a polarity consumer here: its threshold is the centre of the histogram bin of the LOWER
        # cluster (pinned by the library's own test), so whether the lower cluster is decided 0 or 1 depends on where it falls inside the bin
        "LLRThresholder(hard)": (lambda: S.LLRThresholder(), "any"),
        "MinDistanceThresholder": (lambda: S.MinDistanceThresholder(input_type=L), "any"),
        # option values that leave the decision rule 'sign of the LLR' untouched: reference points given bit-0 first, far apart, as a symmetric
        # multi-level grid or unordered; other noise variances; confidence scalings (a weight other than 1 moves the threshold by design and is not such an option)
        "MinDistanceThresholder(refs=[2,-2])": (lambda: S.MinDistanceThresholder(reference_points=torch.tensor([2.0, -2.0]), input_type=L), "any"),
        "MinDistanceThresholder(refs=[50,-50])": (lambda: S.MinDistanceThresholder(reference_points=torch.tensor([50.0, -50.0]), input_type=L), "any"),
        "MinDistanceThresholder(refs=grid6)": (lambda: S.MinDistanceThresholder(reference_points=torch.tensor([-8.0, -3.0, -1.0, 1.0, 3.0, 8.0]), input_type=L), "any"),
        "MinDistanceThresholder(refs=unordered4)": (lambda: S.MinDistanceThresholder(reference_points=torch.tensor([1.0, -1.0, 3.0, -3.0]), input_type=L), "any"),
        "MinDistanceThresholder(noise_var=0.1)": (lambda: S.MinDistanceThresholder(noise_var=0.1, input_type=L), "any"),
        "LLRThresholder(scaling=0.25)": (lambda: S.LLRThresholder(confidence_scaling=0.25), "any"),
        "LLRThresholder(scaling=8)": (lambda: S.LLRThresholder(confidence_scaling=8.0), "any"),
        "HysteresisThresholder": (lambda: S.HysteresisThresholder(input_type=L), "ge1"),
        "WeightedThresholder": (lambda: S.WeightedThresholder(weights=1.0, input_type=L), "any"),
        "DynamicThresholder": (lambda: S.DynamicThresholder(input_type=L), "both"),
        "SoftBitEnsembleThresholder": (lambda: S.SoftBitEnsembleThresholder([S.LLRThresholder(), S.WeightedThresholder(weights=1.0, input_type=L), S.LLRThresholder(confidence_scaling=2.0)]), "any"),
        "llr_to_bits": (lambda: llr_to_bits, "any"),
        "sign_to_bin(sign)": (lambda: (lambda x: sign_to_bin(torch.sign(x))), "any"),
    }
    return cons


def applicable(rule, bits, llr):
    """data-adaptive consumers place their threshold from the data: the polarity is only decidable on rows whose LLR magnitudes are
    (nearly) constant and which contain both bit values (median: in equal numbers; otsu: separated by more than a histogram bin)"""
    ones = sum(bits)
    a = llr.abs()
    mag = float(a.min())
    const = float(a.max()) <= 1.01 * mag
    if rule == "any":
        return True
    if rule == "ge1":
        return mag >= 1.0
    if rule == "both":
        return 0 < ones < len(bits) and const
    if rule == "both-ge1":
        return 0 < ones < len(bits) and const and mag >= 1.0
    if rule == "balanced":
        return 2 * ones == len(bits) and const
    return False


def feed_consumers(llr_rows, bit_rows, min_mag, res, comp_prefix, cfg):
    """llr_rows: list of 1-D float tensors; bit_rows: list of expected bit lists"""
    import torch
    from kaira.models.binary import soft_bit_thresholding as S
    for name, (mk, rule) in stateless_consumers().items():
        nbad = 0
        for llr, bits in zip(llr_rows, bit_rows):
            if not applicable(rule, bits, llr):
                continue
            c = mk()
            try:
                out = c(llr.reshape(1, -1)).reshape(-1).tolist()
            except Exception as e:  # noqa: BLE001
                res.viol(name, cfg, "raises", f"{type(e).__name__}: {str(e)[:160]}")
                break
            res.ev(1, nontrivial=1 if any(bits) else 0, transitions=1)
            if [float(b) for b in bits] != [float(o) for o in out]:
                nbad += 1
                if nbad == 1:
                    res.viol(name, cfg, "polarity", f"LLRs {[round(float(t), 4) for t in llr.tolist()]} of bits {bits} -> {out}", {"bits": bits})
    # repetition soft-bit decoder: every LLR repeated three times
    for comb in ("mean", "sum", "median", "min", "max"):
        dec = S.RepetitionSoftBitDecoder(repetition_factor=3, soft_combine_method=comb, input_type=S.InputType.LLR)
        for llr, bits in zip(llr_rows[:64], bit_rows[:64]):
            x = llr.reshape(-1, 1).repeat(1, 3).reshape(1, -1)
            try:
                out = dec(x).reshape(-1).tolist()
            except Exception as e:  # noqa: BLE001
                res.viol("RepetitionSoftBitDecoder", cfg, "raises", f"{comb}: {type(e).__name__}: {str(e)[:160]}")
                break
            res.ev(1, nontrivial=1 if any(bits) else 0, transitions=1)
            if [float(b) for b in bits] != [float(o) for o in out]:
                res.viol("RepetitionSoftBitDecoder", f"{cfg},{comb}", "polarity", f"bits {bits} -> {out}", {"bits": bits})
                break
    # soft output: P(1) = sigmoid(-LLR), strictly decreasing, inside (0,1)
    soft = S.LLRThresholder(output_type=S.OutputType.SOFT)
    for llr in llr_rows[:32]:
        pr = soft(llr.reshape(1, -1)).reshape(-1)
        res.ev(1, transitions=1)
        if float((pr - torch.sigmoid(-llr.reshape(-1))).abs().max()) > 1e-6:
            res.viol("LLRThresholder(soft)", cfg, "p1=sigmoid(-llr)", f"soft output {pr.tolist()} for LLRs {llr.tolist()}")
            break


def producers_case(p, res):
    # all option combinations of one family in ONE process, catalogue order then (fresh instances) reverse order
    from kmc.engine import fresh_kaira
    for spec in p["specs"]:
        producer_case({"spec": spec, "tier": p["tier"]}, res)
    if len(p["specs"]) > 1:
        fresh_kaira()          # the reverse order starts from pristine module state as well
        for spec in reversed(p["specs"]):
            producer_case({"spec": spec, "tier": p["tier"]}, res)


def producer_case(p, res):
    import torch
    spec = p["spec"]
    scheme, cfgs, prm = spec
    kind = MC.KIND[scheme]
    b = MC.bits_per_symbol(scheme, prm)
    mod, dem = MC.build(spec)
    maxbits = 8 if p["tier"] == "quick" else 12
    lens = [s * b for s in range(1, maxbits // b + 1)] or [b]
    for s2 in SIG2:
        cfg = f"{cfgs},sigma2={s2}"
        llr_rows, bit_rows = [], []
        min_mag = None
        for L in lens:
            ref = [0] * b if kind == "differential" else []
            seqs = [ref + list(t) for t in product([0, 1], repeat=L)]
            if kind == "offset":
                seqs = [s + [0, 0] for s in seqs]       # flush symbol so that every quadrature bit is delivered
            x = torch.tensor(seqs, dtype=torch.float32)
            try:
                mod.reset_state()
                dem.reset_state()
                llr = dem(mod(x), s2)
            except Exception as e:  # noqa: BLE001
                res.viol(scheme, cfg, "raises", f"{L} bits: {type(e).__name__}: {str(e)[:160]}")
                continue
            res.transitions += 2
            for row_bits, row in zip(seqs, llr.reshape(len(seqs), -1)):
                if kind == "differential":
                    exp, got = row_bits[b:], row
                elif kind == "offset":
                    # I bits in place, Q bit i arrives one symbol later
                    ns = len(row_bits) // 2
                    exp, idx = [], []
                    for i in range(ns - 1):
                        exp += [row_bits[2 * i], row_bits[2 * i + 1]]
                        idx += [2 * i, 2 * (i + 1) + 1]
                    got = row[idx]
                else:
                    exp, got = row_bits, row
                if got.numel() != len(exp):
                    res.viol(scheme, cfg, "polarity", f"{len(exp)} bits expected, {got.numel()} LLRs returned")
                    break
                res.ev(1, nontrivial=1 if any(exp) else 0, transitions=0)
                sg = [1 if float(t) < 0 else 0 if float(t) > 0 else None for t in got.tolist()]
                if sg != exp:
                    res.viol(scheme, cfg, "polarity", f"bits {exp}: noise-free LLRs {[round(float(t), 4) for t in got.tolist()]} have signs of {sg} (positive must mean bit 0)", {"bits": exp})
                    break
                llr_rows.append(got.clone())
                bit_rows.append(list(exp))
                m = float(got.abs().min())
                min_mag = m if min_mag is None else min(min_mag, m)
        if kind in ("alternating", "memoryless"):
            # soft demodulation also accepts an un-batched symbol vector: same polarity required (a demodulator may decline the layout)
            for L in lens:
                for t in list(product([0, 1], repeat=L))[:64]:
                    try:
                        mod.reset_state()
                        dem.reset_state()
                        sym = mod(torch.tensor([list(t)], dtype=torch.float32))[0]
                        got = dem(sym, s2).reshape(-1)
                    except Exception as e:  # noqa: BLE001
                        if kind == "memoryless":
                            res.rejected += 1
                            break
                        res.viol(scheme, cfg, "raises", f"un-batched soft demodulation: {type(e).__name__}: {str(e)[:160]}")
                        break
                    res.ev(1, nontrivial=1 if any(t) else 0, transitions=2)
                    sg = [1 if float(v_) < 0 else 0 if float(v_) > 0 else None for v_ in got.tolist()]
                    if got.numel() != len(t):
                        res.viol(scheme, f"{cfg},layout=1d", "polarity", f"bits {list(t)}: un-batched soft demodulation returned {got.numel()} LLRs")
                        break
                    if sg != list(t):
                        res.viol(scheme, f"{cfg},layout=1d", "polarity", f"bits {list(t)}: un-batched noise-free LLRs {[round(float(v_), 4) for v_ in got.tolist()]} have signs of {sg}", {"bits": list(t)})
                        break
        if llr_rows:
            sel = list(range(0, len(llr_rows), max(1, len(llr_rows) // 120)))
            feed_consumers([llr_rows[i] for i in sel], [bit_rows[i] for i in sel], min_mag, res, scheme, f"{scheme},{cfg}")
    # one long frame of fixed pseudo-random bits (5003 symbols in one row and 2 x 4500 symbols for BPSK / QPSK, 403 and 2 x 299 for the others): every LLR carries the sign of ITS bit, scalar and 0-d noise variance
    if kind == "memoryless":
        from kaira.models.fec.utils import llr_to_bits
        nsym = 5003 if scheme in ("bpsk", "qpsk") else 403     # (the library's other soft demodulators loop over the symbols in Python; their long calls are C06's)
        for shape in ((1, nsym), (2, nsym - 503 if nsym > 1000 else nsym - 104)):
            xb = torch.randint(0, 2, (shape[0], shape[1] * b), generator=torch.Generator().manual_seed(77 + b)).to(torch.float32)
            for nv in (0.3, torch.tensor(2.0)):
                cfg = f"{cfgs},long-frame,{shape[0]}x{shape[1]},noise_var={'0d' if isinstance(nv, torch.Tensor) else nv}"
                try:
                    llr = dem(mod(xb), nv)
                except Exception as e:  # noqa: BLE001
                    res.viol(scheme, cfg, "raises", f"{type(e).__name__}: {str(e)[:160]}")
                    continue
                res.ev(xb.numel(), nontrivial=xb.numel(), transitions=2)
                if tuple(llr.shape) != tuple(xb.shape):
                    res.viol(scheme, cfg, "polarity", f"{tuple(xb.shape)} bits sent, LLRs of shape {tuple(llr.shape)} returned")
                    continue
                wrong = ((llr < 0).to(torch.float32) != xb) | (llr == 0)
                if bool(wrong.any()) or not torch.equal(llr_to_bits(llr).to(torch.float32), xb):
                    i = int(wrong.reshape(-1).nonzero()[0]) if bool(wrong.any()) else -1
                    res.viol(scheme, cfg, "polarity", f"{int(wrong.sum())} of {xb.numel()} noise-free LLRs do not carry the sign of their bit (first at bit {i}: symbol {i // b} of {shape[1]} in its row)", {"bit": i})
    res.sample({"scheme": scheme, "cfg": cfgs, "lengths": lens})


def synthetic_case(p, res):
    import torch
    for mag in (1e-3, 1.0, 1e3):
        rows, bits = [], []
        for L in range(1, 7):
            for pat in product([0, 1], repeat=L):
                bits.append(list(pat))
                rows.append(torch.tensor([(1 - 2 * t) * mag * (1 + 0.001 * i) for i, t in enumerate(pat)], dtype=torch.float32))
        feed_consumers(rows, bits, mag, res, "synthetic", f"synthetic,mag={mag}")
    # whole batches: every word of length L together with its complement (so that the tensor as a whole holds both bit values in equal numbers at one
    # magnitude - the domain on which the data-adaptive consumers are decidable), including the constant rows 00..0 / 11..1; and all 2^L words at once
    for mag in (1e-3, 1.0, 1e3):
        for L in (1, 2, 3, 4):
            pats = [list(p_) for p_ in product([0, 1], repeat=L)]
            batches = [[p_, [1 - t for t in p_]] for p_ in pats] + [pats]
            for rows_b in batches:
                X = torch.tensor([[(1 - 2 * t) * mag for t in r_] for r_ in rows_b], dtype=torch.float32)
                for name, (mk, rule) in stateless_consumers().items():
                    if rule == "ge1" and mag < 1.0:
                        continue
                    try:
                        out = mk()(X)
                    except Exception as e:  # noqa: BLE001
                        res.viol(name, f"synthetic-batch,mag={mag}", "raises", f"batch of {len(rows_b)} words of length {L}: {type(e).__name__}: {str(e)[:160]}")
                        continue
                    res.ev(len(rows_b), nontrivial=len(rows_b), transitions=1)
                    got = [[float(o) for o in r_] for r_ in out.reshape(len(rows_b), L).tolist()]
                    if got != [[float(t) for t in r_] for r_ in rows_b]:
                        i = next(i for i in range(len(rows_b)) if got[i] != [float(t) for t in rows_b[i]])
                        res.viol(name, f"synthetic-batch,mag={mag}", "polarity", f"batch {rows_b} at magnitude {mag}: row {i} (bits {rows_b[i]}) -> {got[i]}", {"bits": rows_b[i]})
    # LLR -> probability conversions are monotone
    from kaira.models.binary import soft_bit_thresholding as S
    soft = S.LLRThresholder(output_type=S.OutputType.SOFT)
    grid = torch.linspace(-12, 12, 481)
    pr = soft(grid)
    res.ev(481, transitions=1)
    if not bool((pr[1:] < pr[:-1]).all()) or float(pr.min()) <= 0 or float(pr.max()) >= 1:
        res.viol("LLRThresholder(soft)", "grid", "monotone", "P(bit=1) is not strictly decreasing in the LLR / leaves (0,1)")
    res.sample({"patterns": 126, "magnitudes": [1e-3, 1.0, 1e3]})


def stateful_case(p, res):
    import torch
    from kaira.models.binary import soft_bit_thresholding as S
    depth = 3 if p["tier"] == "quick" else 4
    pool = [torch.tensor([[5.0, -5.0, 5.0, -5.0]]), torch.tensor([[-800.0, -800.0, -800.0, -800.0]]), torch.tensor([[1.5, 1.5, -1.5, 1.5]]), torch.tensor([[900.0, 900.0, 900.0, 900.0]])]
    probe = torch.tensor([[2.0, -2.0, -3.0, 4.0]])
    want = [0.0, 1.0, 1.0, 0.0]
    for name, mk, reset in (
        ("HysteresisThresholder", lambda: S.HysteresisThresholder(input_type=S.InputType.LLR), lambda m: m.reset_state()),
        ("DynamicThresholder", lambda: S.DynamicThresholder(input_type=S.InputType.LLR), lambda m: m.reset_stats(0.5)),
    ):
        held = {}

        def opx(t):
            def f(m):
                t0 = t.clone()
                out = m(t)
                held.setdefault(id(m), []).append((out, out.clone(), t, t0))       # decisions handed out earlier stay what they were
            return f
        ops = [(f"call(x{i})", opx(t)) for i, t in enumerate(pool)] + [("reset", reset)]

        def mk_(mk=mk):
            m = mk()
            held[id(m)] = []
            return m

        def on_tr(names, m, obs, name=name, reset=reset):
            if isinstance(obs, Exception):
                res.viol(name, "history", "raises", f"history {list(names)}: {type(obs).__name__}: {obs}")
                return
            for j, (o, o0, t, t0) in enumerate(held.get(id(m), [])):
                if not torch.equal(o, o0):
                    res.viol(name, "history", "polarity", f"history {list(names)}: the decisions returned by call {j + 1} were {o0.reshape(-1).tolist()} and read {o.reshape(-1).tolist()} after the later calls", {"history": list(names)})
                    break
                if not torch.equal(t, t0):
                    res.viol(name, "history", "polarity", f"history {list(names)}: the LLRs given to call {j + 1} were modified", {"history": list(names)})
                    t.copy_(t0)
                    break
            reset(m)
            out = m(probe).reshape(-1).tolist()
            if out != want:
                res.viol(name, "history", "after-reset", f"after history {list(names)} + reset: LLRs {probe.tolist()} -> {out}, expected {want}", {"history": list(names)})
        st = bfs.explore(mk_, ops, depth, lambda m: bfs.canon_module(m), on_tr)
        res.ev(st["transitions"], nontrivial=st["transitions"], states=st["states"], transitions=st["transitions"])
        res.bump("bfs_states", st["states"])
    res.sample({"stateful": ["HysteresisThresholder", "DynamicThresholder"], "depth": depth})


def decoder_case(p, res):
    """producer -> decoder consumer: every codeword of a small code, modulated by every scheme whose symbol size divides the block length"""
    import torch
    from kaira.models.fec import decoders as D
    from kaira.models.fec import encoders as E
    dec = p["dec"]
    if dec in ("bp-irregular", "minsum-irregular"):
        # check degrees 3,2,3,2,4: equal-degree checks are not adjacent
        H = torch.tensor([[1, 1, 0, 1, 0, 0, 0, 0], [0, 1, 1, 0, 0, 0, 0, 0], [0, 0, 0, 1, 1, 1, 0, 0], [0, 0, 0, 0, 0, 1, 1, 0], [1, 0, 1, 0, 1, 0, 1, 1]], dtype=torch.float32)
        enc = E.LDPCCodeEncoder(check_matrix=H)
        mk = (lambda: D.BeliefPropagationDecoder(enc, bp_iters=12)) if dec == "bp-irregular" else (lambda: D.MinSumLDPCDecoder(enc, bp_iters=12))
    elif dec in ("bp", "minsum"):
        H = torch.tensor([[1, 1, 0, 1, 0, 0], [0, 1, 1, 0, 1, 0], [0, 0, 0, 1, 1, 1]], dtype=torch.float32)   # a tree: BP exact
        enc = E.LDPCCodeEncoder(check_matrix=H)
        mk = (lambda: D.BeliefPropagationDecoder(enc, bp_iters=12)) if dec == "bp" else (lambda: D.MinSumLDPCDecoder(enc, bp_iters=12))
    elif dec == "wagner":
        enc = E.SingleParityCheckCodeEncoder(3)
        mk = lambda: D.WagnerSoftDecisionDecoder(enc)  # noqa: E731
    elif dec in ("sc", "polar-bp"):
        enc = E.PolarCodeEncoder(4, 8, frozen_zeros=True, load_rank=True)
        mk = (lambda: D.SuccessiveCancellationDecoder(enc)) if dec == "sc" else (lambda: D.BeliefPropagationPolarDecoder(enc, bp_iters=10))
    else:
        enc = E.ReedMullerCodeEncoder(1, 3)
        mk = lambda: D.ReedMullerDecoder(enc, input_type="soft")  # noqa: E731
    n, k = int(enc.code_length), int(enc.code_dimension)
    msgs = [list(m) for m in product([0, 1], repeat=k)]
    cws = enc(torch.tensor(msgs, dtype=torch.float32))
    d = mk()
    flip = False
    for spec in MC.schemes(p["tier"], with_registry=False):
        scheme, cfgs, prm = spec
        if scheme == "identity":
            continue
        b = MC.bits_per_symbol(scheme, prm)
        if n % b:
            continue
        kind = MC.KIND[scheme]
        mod, dem = MC.build(spec)
        for s2 in SIG2:
            cfg = f"{scheme},{cfgs},sigma2={s2}"
            # the SAME decoder object serves every producer: alternate the order of the codewords from call to call so that anything the decoder
            # keeps from the previous call belongs to a different word
            flip = not flip
            order = list(range(len(msgs) - 1, -1, -1)) if flip else list(range(len(msgs)))
            x = cws[order]
            msgs_o = [msgs[i] for i in order]
            if kind == "differential":
                x = torch.cat([torch.zeros(len(msgs), b), x], dim=1)
            if kind == "offset":
                x = torch.cat([x, torch.zeros(len(msgs), 2)], dim=1)
            try:
                mod.reset_state()
                dem.reset_state()
                llr = dem(mod(x), s2)
                if kind == "offset":
                    ns = x.shape[1] // 2
                    idx = [j for i in range(ns - 1) for j in (2 * i, 2 * (i + 1) + 1)]
                    llr = llr[:, idx]
                out = d(llr.to(torch.float32))
            except Exception as e:  # noqa: BLE001
                res.viol(dec, cfg, "raises", f"{type(e).__name__}: {str(e)[:200]}")
                continue
            res.ev(len(msgs), nontrivial=len(msgs) - 1, transitions=3)
            if tuple(out.shape) != (len(msgs), k) or out.to(torch.float32).tolist() != [[float(t) for t in m] for m in msgs_o]:
                bad = next((i for i in range(len(msgs)) if tuple(out.shape) != (len(msgs), k) or out[i].to(torch.float32).tolist() != [float(t) for t in msgs_o[i]]), 0)
                res.viol(dec, cfg, "polarity", f"codeword of message {msgs_o[bad]} sent with {scheme}, soft-demodulated and decoded -> {out[bad].tolist() if out.dim() == 2 else tuple(out.shape)}", {"msg": msgs[bad]})
    # the whole magnitude range of the property (1e-3 .. 1e3) directly on the decoders: noise-free LLRs of every codeword, polarity = message
    codes = [(enc, mk)]
    if dec in ("sc", "polar-bp"):
        for kk, nn in ((8, 16), (16, 32)):
            e2 = E.PolarCodeEncoder(kk, nn, frozen_zeros=True, load_rank=True)
            codes.append((e2, (lambda e2=e2: D.SuccessiveCancellationDecoder(e2)) if dec == "sc" else (lambda e2=e2: D.BeliefPropagationPolarDecoder(e2, bp_iters=10))))
    # every option set of the message-passing consumers (exact / series arctanh, iteration counts, min-sum scalings): the polarity convention does
    # not depend on how the check-node rule is evaluated
    if dec in ("bp", "bp-irregular"):
        for at in (True, False):
            for it in (1, 2, 5, 12):
                if (at, it) != (True, 12):
                    codes.append((enc, (lambda at=at, it=it: D.BeliefPropagationDecoder(enc, bp_iters=it, arctanh=at)), f",arctanh={int(at)},it={it}"))
    if dec in ("minsum", "minsum-irregular"):
        for kw in ({"bp_iters": 2}, {"bp_iters": 5, "scaling_factor": 0.8}, {"bp_iters": 5, "offset": 0.3}, {"bp_iters": 5, "normalized": True}):
            codes.append((enc, (lambda kw=kw: D.MinSumLDPCDecoder(enc, **kw)), "," + ",".join(f"{a}={b}" for a, b in kw.items())))
    for e_, mk_, *tag in codes:
        n_, k_ = int(e_.code_length), int(e_.code_dimension)
        ms = [list(m) for m in product([0, 1], repeat=k_)] if k_ <= 8 else [[(i >> j) & 1 for j in range(k_)] for i in list(range(0, 1 << k_, 257))[:256]]
        xm = torch.tensor(ms, dtype=torch.float32)
        cw_ = e_(xm)
        d_ = mk_()
        for mag in (1e-3, 1e-2, 1.0, 8.0, 18.0, 20.0, 30.0, 1e2, 1e3):
            cfg = f"n={n_},k={k_},magnitude={mag}" + (tag[0] if tag else "")
            try:
                out = d_((1 - 2 * cw_) * mag)
            except Exception as e:  # noqa: BLE001
                res.viol(dec, cfg, "raises", f"{type(e).__name__}: {str(e)[:200]}")
                continue
            res.ev(len(ms), nontrivial=len(ms) - 1, transitions=1)
            if tuple(out.shape) != tuple(xm.shape) or not torch.equal(out.to(torch.float32), xm):
                i = int((out.to(torch.float32) != xm).any(dim=1).nonzero()[0]) if tuple(out.shape) == tuple(xm.shape) else 0
                res.viol(dec, cfg, "polarity", f"noise-free LLRs of magnitude {mag} for message {ms[i]} decoded to {out[i].tolist() if out.dim() == 2 else tuple(out.shape)}", {"msg": ms[i], "mag": mag})
    res.sample({"decoder": dec, "n": n, "k": k})


# ----------------------------------------------------------------------------- spelling equivalence of the constructors behind this property
# (positional / keyword / mixed spellings of one legal call configure the same object; shared helper kmc/spelling.py)
_cases0, _execute0, _component0 = cases, execute, component_of


def cases(tier, seed):  # noqa: F811
    yield from _cases0(tier, seed)
    yield f"{PID}|spelling", {"kind": "spelling", "tier": tier}


def execute(p, res):  # noqa: F811
    if p.get("kind") == "spelling":
        from kmc import spelling
        return spelling.run(PID, res)
    return _execute0(p, res)


def component_of(p):  # noqa: F811
    return "spelling" if p.get("kind") == "spelling" else _component0(p)


# ----------------------------------------------------------------------------- life-cycle equivalence of the components behind this property
# (deep copy / pickle / state_dict / eval-train / cast round trip / no_grad ... leave the behaviour unchanged; shared helper kmc/lifecycle.py)
_cases1, _execute1, _component1 = cases, execute, component_of


def cases(tier, seed):  # noqa: F811
    yield from _cases1(tier, seed)
    yield f"{PID}|lifecycle", {"kind": "lifecycle", "tier": tier}


def execute(p, res):  # noqa: F811
    if p.get("kind") == "lifecycle":
        from kmc import lifecycle
        return lifecycle.run(PID, res)
    return _execute1(p, res)


def component_of(p):  # noqa: F811
    return "lifecycle" if p.get("kind") == "lifecycle" else _component1(p)
