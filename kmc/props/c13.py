"""C13 – flat fading: block-constant, independently drawn, correctly normalised gains; y = h.x + n (E4 + E1)."""
import math

PID = "C13"
ENGINE = "kmc-E4-rngseam + kmc-E1-space"
RULE = ("fading types {rayleigh, rician K in {0,0.5,1,5,100}, lognormal} (base class and subclasses) x coherence times 1..L incl. non-divisors "
        "(L in {6,7,12}) x real/complex x shapes {(L,), (1,L), (3,L), (2,3,2,2)} x noise by power / SNR / supplied; supplied csi+noise identity "
        "on every case; alphabet policy: EVERY answer position is perturbed in turn to show block constancy and private draws; quantile policy "
        "(2^14 / 2^16 blocks) for unit gain and K-factor; a state is one (configuration, shape, answer vector); non-trivial = more than one block")
ASSUME = ["torch's generators are i.i.d. N(0,1): block independence is decided structurally (each (item, block) is controlled by its own private draws)",
          "tolerances 0.5 % (unit gain) and 1 % (K-factor) against a quantile-grid error <= 2e-3"]
HORIZON = {"quick": 240, "thorough": 2400}
KS = [0.0, 0.5, 1.0, 5.0, 100.0]


def bounds(tier):
    return {"L": [6, 7, 12], "coherence_times": "1..L", "K": KS, "quantile_blocks": 2 ** 14 if tier == "quick" else 2 ** 16}


def types():
    out = [("rayleigh", None, "base"), ("rayleigh", None, "sub"), ("lognormal", 4.0, "base"), ("lognormal", 8.0, "sub")]
    for K in KS:
        out.append(("rician", K, "base"))
        out.append(("rician", K, "sub"))
    return out


def cases(tier, seed):
    for ft, par, how in types():
        yield f"C13|{ft}|{par},{how}|structure", {"kind": "structure", "ft": ft, "par": par, "how": how, "tier": tier}
        if ft != "lognormal":
            yield f"C13|{ft}|{par},{how}|gain", {"kind": "gain", "ft": ft, "par": par, "how": how, "tier": tier}
    # one LONG sequence beyond 2^24 samples per item (index arithmetic in single precision stops being exact there)
    for T_ in (7, 16):
        yield f"C13|long|T={T_}", {"kind": "long", "T": T_, "ft": "rayleigh", "tier": tier}


def component_of(p):
    return p.get("ft", "long")


def make(ft, par, how, T, **noise):
    import kaira.channels as K
    if how == "base":
        kw = {"k_factor": par} if ft == "rician" else {"shadow_sigma_db": par} if ft == "lognormal" else {}
        return K.FlatFadingChannel(ft, T, **kw, **noise)
    if ft == "rayleigh":
        return K.RayleighFadingChannel(coherence_time=T, **noise)
    if ft == "rician":
        return K.RicianFadingChannel(k_factor=par, coherence_time=T, **noise)
    return K.LogNormalFadingChannel(shadow_sigma_db=par, coherence_time=T, **noise)


def execute(p, res):
    {"structure": structure_case, "gain": gain_case, "long": long_case}[p["kind"]](p, res)


def _x(shape, cplx):
    import torch
    n = 1
    for s in shape:
        n *= s
    i = torch.arange(n, dtype=torch.float32)
    re = 1.0 + 0.3 * torch.cos(0.9 * i)
    if cplx:
        return torch.complex(re, 0.5 * torch.sin(1.3 * i) + 0.2).reshape(shape)
    return re.reshape(shape)


def structure_case(p, res):
    import torch
    from kmc.rngseam import Alphabet, Seam
    ft, par, how = p["ft"], p["par"], p["how"]
    cfgb = f"{par},{how}"
    for L in (6, 7, 12):
        shapes = [(L,), (1, L), (3, L)] + ([(2, 3, 2, 2)] if L == 12 else []) + ([(11, L)] if L == 6 else [])      # (batches that are neither small nor a multiple of 8)
        for T in range(1, L + 1):
            if p["tier"] == "quick" and L == 12 and T not in (1, 2, 5, 6, 7, 12):
                continue
            for cplx in (False, True):
                for shape in shapes:
                    cfg = f"{cfgb},T={T},L={L},shape={'x'.join(map(str, shape))},{'complex' if cplx else 'real'}"
                    v = lambda clause, d, f=None: res.viol(ft, cfg, clause, d, f)  # noqa: E731
                    x = _x(shape, cplx)
                    B = shape[0] if len(shape) > 1 else 1
                    n = x.numel() // B
                    nb = (n + T - 1) // T
                    # ---------- (a) supplied csi and noise: y == h.x + n, shape preserved
                    ch = make(ft, par, how, T, avg_noise_power=0.2)
                    i = torch.arange(B * n, dtype=torch.float32).reshape(B, n)
                    h = torch.complex(0.7 + 0.2 * torch.cos(0.4 * i), 0.3 * torch.sin(0.7 * i))
                    nz = torch.complex(0.05 * torch.sin(1.1 * i), 0.02 * torch.cos(0.3 * i))
                    hh, nn = (h[0], nz[0]) if len(shape) == 1 else (h, nz)
                    try:
                        y = ch(x, csi=hh, noise=nn)
                        res.ev(1, nontrivial=1, transitions=1)
                        want = (h * x.reshape(B, n) + nz).reshape(shape)
                        if tuple(y.shape) != tuple(shape):
                            v("shape", f"supplied csi/noise: output shape {tuple(y.shape)} for input {shape}")
                        elif float((y - want).abs().max()) > 1e-6 * (1 + float(want.abs().max())):
                            v("y=hx+n", f"supplied csi/noise: output differs from h*x+n by {float((y - want).abs().max()):.3g}")
                    except Exception as e:  # noqa: BLE001
                        v("raises", f"supplied csi/noise: {type(e).__name__}: {str(e)[:200]}")
                    if len(shape) > 2:
                        # csi / noise in the input's own layout: must agree or be rejected, never a different answer
                        try:
                            y2 = ch(x, csi=h.reshape(shape), noise=nz.reshape(shape))
                            res.ev(1, transitions=1)
                            if tuple(y2.shape) != tuple(shape) or float((y2 - want).abs().max()) > 1e-6 * (1 + float(want.abs().max())):
                                v("y=hx+n", "csi/noise given in the input's own N-d layout: output differs from h*x+n")
                        except Exception:  # noqa: BLE001
                            res.rejected += 1
                    # ---------- (b) block constancy and private draws (noise supplied as zeros)
                    zeros = torch.zeros(B, n, dtype=torch.complex64)
                    zz = zeros[0] if len(shape) == 1 else zeros

                    def run(ans):
                        pol = Alphabet(ans, pad=0.123)
                        with Seam(pol):
                            yy = ch(x, noise=zz)
                        hhat = (yy.reshape(B, n) / x.reshape(B, n).to(torch.complex64))
                        return hhat, pol
                    base = [0.11 + 0.0173 * k + 0.00041 * k * k for k in range(160)] + [3.7 + 0.0031 * k for k in range(160, 420)]
                    try:
                        h0, pol = run(base)
                    except Exception as e:  # noqa: BLE001
                        v("raises", f"noise=0, drawn fading: {type(e).__name__}: {str(e)[:200]}")
                        continue
                    D = pol.served
                    res.ev(1, nontrivial=1 if nb > 1 else 0, transitions=1)
                    # ---------- (c) without the seam: every call consumes fresh randomness (two calls without reseeding differ in every block, on the
                    # same object and on a fresh one; the same seed replays the same gains)
                    if T in (1, L) and shape in ((L,), (3, L)):
                        try:
                            torch.manual_seed(4242)
                            g1 = ch(x, noise=zz).reshape(B, n) / x.reshape(B, n).to(torch.complex64)
                            g2 = ch(x, noise=zz).reshape(B, n) / x.reshape(B, n).to(torch.complex64)
                            g3 = make(ft, par, how, T, avg_noise_power=0.2)(x, noise=zz).reshape(B, n) / x.reshape(B, n).to(torch.complex64)
                            torch.manual_seed(4242)
                            g4 = ch(x, noise=zz).reshape(B, n) / x.reshape(B, n).to(torch.complex64)
                            res.ev(3, nontrivial=3, transitions=4)
                            same12 = int(((g1 - g2).abs() < 1e-7).sum())
                            same13 = int(((g1 - g3).abs() < 1e-7).sum())
                            if same12 or same13:
                                v("private-draws", f"two calls without reseeding share gains: {same12} of {B * n} samples identical on the same channel object, {same13} on a fresh object (T={T})")
                            if not torch.equal(g1, g4):
                                v("private-draws", "the same seed does not replay the same gains")
                        except Exception as e:  # noqa: BLE001
                            v("raises", f"repeated calls: {type(e).__name__}: {str(e)[:160]}")
                    if pol.bypassed:
                        res.seam_bypassed += 1      # the channel names its own torch.Generator: the answer-perturbation clauses cannot be driven
                        continue
                    if tuple(h0.shape) != (B, n):
                        v("shape", f"output shape mismatch {tuple(h0.shape)}")
                        continue
                    blocks = [[k // T for k in range(n)] for _ in range(B)]
                    bad = [(b, k) for b in range(B) for k in range(1, n) if blocks[b][k] == blocks[b][k - 1] and abs(complex(h0[b, k]) - complex(h0[b, k - 1])) > 1e-5 * (1 + abs(complex(h0[b, k])))]
                    if bad:
                        v("block-constant", f"gain changes inside a coherence block at item {bad[0][0]}, sample {bad[0][1]} (T={T})")
                    distinct = {(b, blocks[b][k]): complex(h0[b, k]) for b in range(B) for k in range(n)}
                    vals = list(distinct.values())
                    if nb * B > 1 and len({(round(c.real, 5), round(c.imag, 5)) for c in vals}) != len(vals):
                        v("private-draws", f"different blocks / items received identical gains from all-distinct draws ({len(vals)} blocks)")
                    if D > 150:
                        if D > 3 * B * nb + 8:
                            v("private-draws", f"{D} draws for {B}x{nb} blocks")
                        continue        # (large batches: distinctness of all gains is checked above; the per-draw ownership analysis is for the small ones)
                    owner = {}
                    for d in range(D):
                        a = list(base)
                        a[d] = base[d] + 0.77
                        h1, _ = run(a)
                        res.ev(1, nontrivial=1, transitions=1)
                        changed = {(b, blocks[b][k]) for b in range(B) for k in range(n) if abs(complex(h1[b, k]) - complex(h0[b, k])) > 1e-6}
                        if len(changed) > 1:
                            v("private-draws", f"draw {d} of {D} changes the gains of {len(changed)} blocks {sorted(changed)[:4]} (T={T}, B={B})", {"d": d})
                            break
                        for c in changed:
                            owner.setdefault(c, []).append(d)
                    else:
                        if set(owner) != set(distinct):
                            v("private-draws", f"blocks {sorted(set(distinct) - set(owner))[:4]} are not controlled by any draw ({D} draws, {len(distinct)} blocks)")
                        elif len({len(o) for o in owner.values()}) != 1:
                            v("private-draws", f"blocks are controlled by different numbers of draws: {sorted({len(o) for o in owner.values()})}")
                    res.outcome((ft, D, B * nb))
    res.sample({"type": ft, "param": par, "how": how})


def long_case(p, res):
    """block constancy and block-to-block change on a sequence of 2^24 + 4099 samples (1-D and as one image-like item), coherence time T"""
    import torch
    import kaira.channels as K
    T = p["T"]
    L = (1 << 24) + 4099
    for shape in ((L,), (1, 3, 2368, 2368)):
        n = 1
        for d_ in shape:
            n *= d_
        cfg = f"T={T},shape={'x'.join(map(str, shape))}"
        try:
            torch.manual_seed(5)
            ch = K.RayleighFadingChannel(coherence_time=T, avg_noise_power=0.1)
            x = torch.ones(shape, dtype=torch.complex64)
            y = ch(x, noise=torch.zeros(shape if len(shape) > 1 else shape, dtype=torch.complex64).reshape(1, -1) if len(shape) > 1 else torch.zeros(shape, dtype=torch.complex64))
        except Exception as e:  # noqa: BLE001
            res.viol("rayleigh", cfg, "raises", f"{type(e).__name__}: {str(e)[:200]}")
            continue
        res.ev(n, nontrivial=n, transitions=1)
        if tuple(y.shape) != tuple(shape):
            res.viol("rayleigh", cfg, "shape", f"output shape {tuple(y.shape)}")
            continue
        h = y.reshape(-1)
        idx = torch.arange(n, dtype=torch.int64)
        start = (idx // T) * T
        bad = (h != h[start]).nonzero()
        if bad.numel():
            i = int(bad[0])
            res.viol("rayleigh", cfg, "block-constant", f"sample {i} (block {i // T}, offset {i % T}) has gain {complex(h[i]):.4f} but the first sample of its block has {complex(h[int(start[i])]):.4f}; {int(bad.numel())} samples differ from their block's first sample")
        firsts = h[::T]
        same_next = int((firsts[1:] == firsts[:-1]).sum())
        if same_next:
            res.viol("rayleigh", cfg, "private-draws", f"{same_next} consecutive blocks share one gain")
    res.sample({"L": L, "T": T})


def gain_case(p, res):
    import torch
    from kmc.rngseam import Quantile, Seam
    ft, par, how = p["ft"], p["par"], p["how"]
    N = 2 ** 14 if p["tier"] == "quick" else 2 ** 16
    for layout in ("1xN", "Nx1", "64x(N/64)"):
        cfg = f"{par},{how},{layout}"
        v = lambda clause, d: res.viol(ft, cfg, clause, d)  # noqa: E731
        T = 1
        shape = {"1xN": (1, N), "Nx1": (N, 1), "64x(N/64)": (64, N // 64)}[layout]
        x = torch.ones(shape, dtype=torch.complex64)
        ch = make(ft, par, how, T, avg_noise_power=1.0)
        try:
            with Seam(Quantile()):
                y = ch(x, noise=torch.zeros(shape, dtype=torch.complex64))
        except Exception as e:  # noqa: BLE001
            v("raises", f"{type(e).__name__}: {str(e)[:200]}")
            continue
        res.ev(1, nontrivial=1, transitions=1)
        h = y.reshape(-1).to(torch.complex128)
        g2 = float((h.abs() ** 2).mean())
        m = complex(h.mean())
        if abs(g2 - 1.0) > 5e-3:
            v("unit-gain", f"mean |h|^2 over {h.numel()} blocks = {g2:.5f} (expected 1)")
        if ft == "rician":
            K = par
            los = abs(m) ** 2
            sc = g2 - los
            if K == 0:
                if los > 1e-6:
                    v("k-factor", f"K=0 but |mean h|^2 = {los:.3g}")
            elif abs(los / sc - K) > 1e-2 * K:
                v("k-factor", f"line-of-sight / scattered power = {los / sc:.5f}, configured K = {K}")
        else:
            if abs(m) ** 2 > 1e-6:
                v("unit-gain", f"Rayleigh gains have non-zero mean {m}")
        res.outcome((ft, par, round(g2, 3)))
    # noise calibrated relative to the FADED signal (csi supplied, noise drawn): the reference is mean |h.x|^2 of THIS input, for signals whose
    # power is spread evenly, concentrated where the gain is high, or concentrated where it is low (bursts with zero padding included)
    i = torch.arange(N, dtype=torch.float32)
    ph = torch.complex(torch.cos(0.3 * i), torch.sin(0.3 * i))
    env = 1.0 + 0.9 * torch.cos(2 * math.pi * i / N)
    burst = (i < N // 4).to(torch.float32)
    patterns = {"flat": (ph, torch.complex(0.3 + 0.1 * torch.cos(0.01 * i), 0.0 * i)),
                "correlated": (ph * env, torch.complex(env, 0.0 * i)),
                "anticorrelated": (ph * env, torch.complex(2.0 - env, 0.1 + 0.0 * i)),
                "burst-strong": (ph * burst, torch.complex(0.1 + 1.9 * burst, 0.0 * i)),
                "burst-weak": (ph * burst, torch.complex(2.0 - 1.9 * burst, 0.0 * i))}
    for snr in (0.0, 10.0, 30.0):
        ch = make(ft, par, how, 4, snr_db=snr)
        for pname, (x1, h1) in patterns.items():
            for shape in ((1, N), (N,), (8, N // 8), (2, 4, N // 8)):
                if shape != (1, N) and (snr != 10.0 or pname == "flat"):
                    continue
                cfg = f"{par},{how},snr={snr}" + ("" if pname == "flat" else f",{pname},shape={'x'.join(map(str, shape))}")
                x = x1.reshape(shape)
                h = h1 if len(shape) == 1 else h1.reshape(shape[0], -1)
                try:
                    x0_, h0_ = x.clone(), h.clone()
                    with Seam(Quantile()):
                        y = ch(x, csi=h)
                except Exception as e:  # noqa: BLE001
                    res.viol(ft, cfg, "raises", f"csi supplied, noise by SNR: {type(e).__name__}: {str(e)[:200]}")
                    continue
                if not torch.equal(x, x0_) or not torch.equal(h, h0_):
                    res.viol(ft, cfg, "y=hx+n", f"the call modified the caller's {'signal' if not torch.equal(x, x0_) else 'csi'} tensor")
                    x, h = x0_, h0_
                res.ev(1, nontrivial=1, transitions=1)
                hx = (h.reshape(-1) * x.reshape(-1)).to(torch.complex128)
                nz = y.reshape(-1).to(torch.complex128) - hx
                pn = float((nz.abs() ** 2).mean())
                want = float((hx.abs() ** 2).mean()) / 10 ** (snr / 10)
                if abs(pn - want) > 5e-3 * want:
                    res.viol(ft, cfg, "noise-calibrated", f"noise power {pn:.6g}, expected faded-signal power / SNR = {want:.6g} (ratio {pn / want:.4f})")
    # noise configured by POWER: the drawn noise has exactly that power, whatever the signal and the gains are (csi supplied, noise drawn)
    for pw in (0.01, 0.2, 1.0, 3.0):
        ch = make(ft, par, how, 4, avg_noise_power=pw)
        for pname in ("flat", "burst-weak", "correlated"):
            x1, h1 = patterns[pname]
            for shape in ((1, N), (N,), (8, N // 8)):
                if shape != (1, N) and (pw != 0.2 or pname != "flat"):
                    continue
                for scale in (1.0, 7.0):
                    if scale != 1.0 and pname != "flat":
                        continue
                    cfg = f"{par},{how},power={pw},{pname},shape={'x'.join(map(str, shape))},scale={scale}"
                    x = (x1 * scale).reshape(shape)
                    h = h1 if len(shape) == 1 else h1.reshape(shape[0], -1)
                    try:
                        x0_, h0_ = x.clone(), h.clone()
                        with Seam(Quantile()):
                            y = ch(x, csi=h)
                    except Exception as e:  # noqa: BLE001
                        res.viol(ft, cfg, "raises", f"csi supplied, noise by power: {type(e).__name__}: {str(e)[:200]}")
                        continue
                    if not torch.equal(x, x0_) or not torch.equal(h, h0_):
                        res.viol(ft, cfg, "y=hx+n", f"the call modified the caller's {'signal' if not torch.equal(x, x0_) else 'csi'} tensor")
                        x, h = x0_, h0_
                    res.ev(1, nontrivial=1, transitions=1)
                    hx = (h.reshape(-1) * x.reshape(-1)).to(torch.complex128)
                    pn = float(((y.reshape(-1).to(torch.complex128) - hx).abs() ** 2).mean())
                    if abs(pn - pw) > 5e-3 * pw:
                        res.viol(ft, cfg, "noise-power", f"noise power {pn:.6g}, configured avg_noise_power = {pw} (ratio {pn / pw:.4f})")
    # the same with DRAWN fading: a probe run (ones in, zero noise) reveals the gains the answer policy produces; the signal is then switched on
    # only where the gain is below / above its median, and the noise of the SNR run is y - h.x with h.x taken from a zero-noise run
    for shape, T in (((1, N), 4), ((8, N // 8), 16)):
        for where in ("weak", "strong"):
            for snr in (10.0, 30.0):
                cfg = f"{par},{how},snr={snr},drawn,{where},shape={'x'.join(map(str, shape))},T={T}"
                zeros = torch.zeros(shape, dtype=torch.complex64)
                try:
                    with Seam(Quantile()):
                        hp = make(ft, par, how, T, avg_noise_power=1.0)(torch.ones(shape, dtype=torch.complex64), noise=zeros)
                    g = hp.abs() ** 2
                    on = (g < g.median()) if where == "weak" else (g >= g.median())
                    x = ph.reshape(shape) * on.to(torch.float32)
                    with Seam(Quantile()):
                        y0 = make(ft, par, how, T, avg_noise_power=1.0)(x, noise=zeros)
                    with Seam(Quantile()):
                        y = make(ft, par, how, T, snr_db=snr)(x)
                except Exception as e:  # noqa: BLE001
                    res.viol(ft, cfg, "raises", f"drawn fading, noise by SNR: {type(e).__name__}: {str(e)[:200]}")
                    continue
                res.ev(1, nontrivial=1, transitions=3)
                nz = (y - y0).to(torch.complex128)
                p_on = float((nz[on].abs() ** 2).mean())
                p_off = float((nz[~on].abs() ** 2).mean())
                if float((y0 - hp * x).abs().max()) > 1e-5 or not (0.8 < p_on / p_off < 1.25):
                    res.undecided += 1       # the gains of the three runs are not the same realisation (different draw order): nothing to compare
                    continue
                pn = float((nz.abs() ** 2).mean())
                want = float((y0.abs().double() ** 2).mean()) / 10 ** (snr / 10)
                if abs(pn - want) > 1e-2 * want:
                    res.viol(ft, cfg, "noise-calibrated", f"drawn fading, signal only where the gain is {where}: noise power {pn:.6g}, expected faded-signal power / SNR = {want:.6g} (ratio {pn / want:.4f})")
    res.sample({"type": ft, "param": par, "blocks": N})


# ----------------------------------------------------------------------------- spelling equivalence of the constructors behind this property
# (positional / keyword / mixed spellings of one legal call configure the same object; shared helper kmc/spelling.py)
_cases0, _execute0, _component0 = cases, execute, component_of


def cases(tier, seed):  # noqa: F811
    yield from _cases0(tier, seed)
    yield f"{PID}|spelling", {"kind": "spelling", "tier": tier}


def execute(p, res):  # noqa: F811
    if p.get("kind") == "spelling":
        from kmc import spelling
        return spelling.run(PID, res)
    return _execute0(p, res)


def component_of(p):  # noqa: F811
    return "spelling" if p.get("kind") == "spelling" else _component0(p)


# ----------------------------------------------------------------------------- life-cycle equivalence of the components behind this property
# (deep copy / pickle / state_dict / eval-train / cast round trip / no_grad ... leave the behaviour unchanged; shared helper kmc/lifecycle.py)
_cases1, _execute1, _component1 = cases, execute, component_of


def cases(tier, seed):  # noqa: F811
    yield from _cases1(tier, seed)
    yield f"{PID}|lifecycle", {"kind": "lifecycle", "tier": tier}


def execute(p, res):  # noqa: F811
    if p.get("kind") == "lifecycle":
        from kmc import lifecycle
        return lifecycle.run(PID, res)
    return _execute1(p, res)


def component_of(p):  # noqa: F811
    return "lifecycle" if p.get("kind") == "lifecycle" else _component1(p)
