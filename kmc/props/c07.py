"""C07 – additive-noise channels deliver the configured noise power / SNR; one SNR definition everywhere (E4 + E1)."""
import math

PID = "C07"
ENGINE = "kmc-E4-rngseam + kmc-E1-space"
RULE = ("channels {AWGN, Laplacian, nonlinear+noise, flat-fading noise stage with supplied CSI, add_noise_for_snr} x parameterisation x real/complex "
        "x signal powers 1e-3..1e3 x SNRs -20..40 dB / noise powers x shapes; every random request answered by the harness: complete quantile "
        "grids (N=2^14 quick / 2^16 thorough) for the power law, enumerated small alphabets for the exact scale law; same-seed relations and "
        "supplied-noise identity without the seam; SNR conversions on a 2001-point grid; a state is one (configuration, signal, answer policy) "
        "execution; non-trivial = noise power > 0")
ASSUME = ["torch's generators are i.i.d. N(0,1) / U(0,1) (the quantile grid is a deterministic quadrature of their second moment)",
          "tolerance 0.5 % on noise power (quantile-grid error <= 2e-3 for N=2^14, realistic calibration errors are >= 26 %)",
          "only first and second moments are decided, not the distribution's shape"]
HORIZON = {"quick": 300, "thorough": 2400}
SIG_POW = [1e-3, 1e-1, 1.0, 1e1, 1e3]
SNRS = [-20.0, -10.0, 0.0, 10.0, 20.0, 30.0, 40.0]
NOISE_POW = [1e-3, 1e-1, 1.0, 1e1, 1e3]
TOL = 5e-3


def bounds(tier):
    return {"quantile_grid_N": 2 ** 14 if tier == "quick" else 2 ** 16, "signal_powers": SIG_POW, "snr_db": SNRS, "noise_powers": NOISE_POW,
            "shapes": ["(N,)", "(4,N/4)", "(2,2,N/4)"], "power_tolerance": TOL}


CHANNELS = ["awgn", "laplacian", "nonlinear-id", "nonlinear-cubic", "flatfading-csi", "add_noise_for_snr"]


def cases(tier, seed):
    for ch in CHANNELS:
        params = ["power", "snr"] + (["scale"] if ch == "laplacian" else [])
        if ch == "add_noise_for_snr":
            params = ["snr"]
        for par in params:
            for cplx in (False, True):
                yield f"C07|{ch}|{par}|{'complex' if cplx else 'real'}", {"kind": "channel", "ch": ch, "par": par, "cplx": cplx, "tier": tier}
    yield "C07|conversions", {"kind": "conv", "tier": tier}
    yield "C07|metric", {"kind": "metric", "tier": tier}
    for cplx in (False, True):
        for lay in ("3xN", "Nx3", "2x3xN"):
            yield f"C07|dims|{lay}|{'complex' if cplx else 'real'}", {"kind": "dims", "lay": lay, "cplx": cplx, "tier": tier}


def component_of(p):
    return p.get("ch", "snr-utils")


def execute(p, res):
    {"channel": channel_case, "conv": conv_case, "metric": metric_case, "dims": dims_case}[p["kind"]](p, res)


def signal(N, power, cplx, shape_kind):
    import torch
    i = torch.arange(N, dtype=torch.float64)
    A = math.sqrt(power)
    if cplx:
        x = A * torch.exp(1j * (0.37 * i + 0.1)) * (1.0 + 0.5 * torch.cos(0.011 * i)) / math.sqrt(1.125)
        x = x.to(torch.complex64)
    else:
        x = (A * math.sqrt(2.0) * torch.cos(0.37 * i + 0.1)).to(torch.float32)
    if shape_kind == 1:
        x = x.reshape(4, N // 4)
    elif shape_kind == 2:
        x = x.reshape(2, 2, N // 4)
    return x


def cubic(t):
    return t + 0.1 * t ** 3


def build(ch, par, value, mode="direct"):
    """-> (callable x -> y, callable x -> noiseless reference f(x))"""
    import torch
    import kaira.channels as K
    kw = {"avg_noise_power": value} if par == "power" else {"snr_db": value} if par == "snr" else {"scale": value}
    if ch == "awgn":
        c = K.AWGNChannel(**kw)
        return (lambda x: c(x)), (lambda x: x)
    if ch == "laplacian":
        c = K.LaplacianChannel(**kw)
        return (lambda x: c(x)), (lambda x: x)
    if ch.startswith("nonlinear"):
        fn = (lambda t: t) if ch.endswith("id") else cubic
        c = K.NonlinearChannel(fn, add_noise=True, complex_mode=mode, **kw)
        c0 = K.NonlinearChannel(fn, add_noise=False, complex_mode=mode)
        return (lambda x: c(x)), (lambda x: c0(x))
    if ch == "flatfading-csi":
        c = K.FlatFadingChannel("rayleigh", 3, **kw)

        def h_of(x):
            n = x.numel() // (x.shape[0] if x.dim() > 1 else 1)
            B = x.shape[0] if x.dim() > 1 else 1
            i = torch.arange(n, dtype=torch.float32)
            return (0.8 + 0.3 * torch.cos(0.05 * i)).unsqueeze(0).repeat(B, 1) * torch.exp(1j * 0.7 * torch.ones(B, n))

        def run(x):
            return c(x, csi=h_of(x) if x.dim() > 1 else h_of(x)[0])

        def ref(x):
            h = h_of(x)
            xx = x.reshape(x.shape[0], -1) if x.dim() > 1 else x.unsqueeze(0)
            y = h * xx
            return y.reshape(x.shape) if x.dim() != 1 else y[0]
        return run, ref
    if ch == "add_noise_for_snr":
        from kaira.utils.snr import add_noise_for_snr
        return (lambda x: add_noise_for_snr(x, value)[0]), (lambda x: x)
    raise KeyError(ch)


def channel_case(p, res):
    import torch
    from kmc.rngseam import Alphabet, Quantile, Seam
    ch, par, cplx = p["ch"], p["par"], p["cplx"]
    q = p["tier"] == "quick"
    N = 2 ** 14 if q else 2 ** 16
    cfgb = f"{par},{'complex' if cplx else 'real'}"
    values = {"power": NOISE_POW, "snr": SNRS, "scale": [0.05, 1.0, 7.0]}[par]
    modes = ["direct", "cartesian", "polar"] if ch.startswith("nonlinear") and cplx else ["direct"]
    for mode in modes:
        cfg = cfgb + (f",mode={mode}" if len(modes) > 1 else "")
        v = lambda clause, d, f=None: res.viol(ch, cfg, clause, d, f)  # noqa: E731
        # ------------- (i) power law under the quantile policy
        for val in values:
            for sp in (SIG_POW if par == "snr" else [1.0, 1e3] if not q else [1.0]):
                for sk in ((0, 1, 2) if (sp == 1.0 or not q) else (0,)):
                    x = signal(N, sp, cplx, sk)
                    run, ref = build(ch, par, val, mode)
                    try:
                        with Seam(Quantile()) as pol:
                            y = run(x)
                        fx = ref(x)
                    except Exception as e:  # noqa: BLE001
                        v("raises", f"{par}={val}, signal power {sp}, shape {tuple(x.shape)}: {type(e).__name__}: {str(e)[:200]}")
                        continue
                    res.ev(1, nontrivial=1, transitions=1)
                    if tuple(y.shape) != tuple(x.shape):
                        v("power", f"output shape {tuple(y.shape)} for input {tuple(x.shape)}")
                        continue
                    n = (y - fx).to(torch.complex128 if (y.is_complex() or fx.is_complex()) else torch.float64)
                    pn = float((n.abs() ** 2).mean())
                    mean = complex(n.mean()) if n.is_complex() else float(n.mean())
                    fxp = float((fx.to(torch.complex128 if fx.is_complex() else torch.float64).abs() ** 2).mean())
                    want = val if par == "power" else fxp / 10 ** (val / 10) if par == "snr" else 2 * val ** 2 * (2 if cplx else 1)
                    clause = "power" if par != "snr" else "snr"
                    res.outcome((ch, par, round(pn / want, 3) if want else None))
                    if not (abs(pn - want) <= TOL * want):
                        v(clause, f"{par}={val}, signal power {sp:g}, shape {tuple(x.shape)}: measured noise power {pn:.6g}, configured {want:.6g} (ratio {pn / want:.4f})", {"val": val, "sp": sp})
                    if abs(mean) > 2e-3 * math.sqrt(want):
                        v("mean", f"{par}={val}: noise mean {mean} for configured noise power {want:.4g}")
                    if len(pol.requests) == 0:
                        res.seam_bypassed += 1
        # ------------- (i') the same channel OBJECT used three times, parameter given as a 0-d tensor (as produced by snr_to_noise_power):
        # every call must deliver the configured power and must not alter the caller's tensor
        if par in ("power", "snr") and ch != "add_noise_for_snr":
            import kaira.channels as K
            val0 = values[len(values) // 2]
            tval = torch.tensor(float(val0))
            kwt = {"avg_noise_power": tval} if par == "power" else {"snr_db": tval}
            try:
                if ch == "awgn":
                    cobj, runner, refr = K.AWGNChannel(**kwt), None, (lambda x: x)
                elif ch == "laplacian":
                    cobj, runner, refr = K.LaplacianChannel(**kwt), None, (lambda x: x)
                elif ch.startswith("nonlinear"):
                    fnl = (lambda t: t) if ch.endswith("id") else cubic
                    cobj = K.NonlinearChannel(fnl, add_noise=True, complex_mode=mode, **kwt)
                    c0 = K.NonlinearChannel(fnl, add_noise=False, complex_mode=mode)
                    runner, refr = None, (lambda x: c0(x))
                else:
                    cobj = K.FlatFadingChannel("rayleigh", 3, **kwt)
                    runner = lambda x: cobj(x, csi=torch.ones(x.shape, dtype=torch.complex64))  # noqa: E731
                    refr = lambda x: x.to(torch.complex64)  # noqa: E731
                x = signal(N, 1.0, cplx, 0)
                for call in range(3):
                    with Seam(Quantile()):
                        y = runner(x) if runner else cobj(x)
                    fx = refr(x)
                    nzz = (y - fx).to(torch.complex128 if (y.is_complex() or fx.is_complex()) else torch.float64)
                    pn = float((nzz.abs() ** 2).mean())
                    fxp = float((fx.to(torch.complex128 if fx.is_complex() else torch.float64).abs() ** 2).mean())
                    want = float(val0) if par == "power" else fxp / 10 ** (float(val0) / 10)
                    res.ev(1, nontrivial=1, transitions=1)
                    if abs(pn - want) > TOL * want:
                        v("power" if par == "power" else "snr", f"call {call + 1} on the same channel object ({par} given as a 0-d tensor {float(val0)}): measured noise power {pn:.6g}, configured {want:.6g} (ratio {pn / want:.4f})", {"call": call})
                        break
                    if float(tval) != float(val0):
                        v("power" if par == "power" else "snr", f"the caller's parameter tensor was modified: {float(val0)} -> {float(tval)} after call {call + 1}")
                        break
            except Exception as e:  # noqa: BLE001
                v("raises", f"0-d tensor parameter / repeated calls: {type(e).__name__}: {str(e)[:200]}")
        # ------------- (i+) ONE channel object serving real and complex signals, several shapes and signal powers in turn: the configured value
        # is delivered in every call (nothing derived from an earlier call's input may be reused for a different kind of input)
        if par in ("power", "snr") and ch in ("awgn", "laplacian", "nonlinear-id") and mode == "direct":
            for val in (values[1], values[-2]):
                run, ref = build(ch, par, val, mode)
                seq = [(cplx, 1.0, 0), (not cplx, 1.0, 0), (cplx, 10.0, 1), (not cplx, 0.1, 2), (cplx, 1.0, 0)]
                for call, (cx, sp, sk) in enumerate(seq):
                    x = signal(N, sp, cx, sk)
                    try:
                        with Seam(Quantile()):
                            y = run(x)
                        fx = ref(x)
                    except Exception as e:  # noqa: BLE001
                        v("raises", f"{par}={val}, call {call + 1} of a mixed real/complex sequence on one object: {type(e).__name__}: {str(e)[:200]}")
                        break
                    res.ev(1, nontrivial=1, transitions=1)
                    nzz = (y - fx).to(torch.complex128 if (y.is_complex() or fx.is_complex()) else torch.float64)
                    pn = float((nzz.abs() ** 2).mean())
                    fxp = float((fx.to(torch.complex128 if fx.is_complex() else torch.float64).abs() ** 2).mean())
                    want = val if par == "power" else fxp / 10 ** (val / 10)
                    if tuple(y.shape) != tuple(x.shape) or y.is_complex() != x.is_complex() or abs(pn - want) > TOL * want:
                        v("power" if par == "power" else "snr", f"{par}={val}: call {call + 1} on one channel object ({'complex' if cx else 'real'} signal of power {sp:g}, shape {tuple(x.shape)}, after "
                          f"{[('complex' if c_ else 'real') for c_, _, _ in seq[:call]]}): measured noise power {pn:.6g}, configured {want:.6g} (ratio {pn / want:.4f})", {"call": call})
                        break
        # ------------- (i'') double-precision signals: same law (a channel may decline a dtype, it may not deliver another power)
        for val in (values[0], values[len(values) // 2], values[-1]):
            xd = signal(N, 1.0, cplx, 1)
            xd = xd.to(torch.complex128 if cplx else torch.float64)
            run, ref = build(ch, par, val, mode)
            try:
                with Seam(Quantile()):
                    y = run(xd)
                fx = ref(xd)
            except Exception:  # noqa: BLE001
                res.rejected += 1
                continue
            res.ev(1, nontrivial=1, transitions=1)
            if tuple(y.shape) != tuple(xd.shape):
                v("power", f"double-precision input: output shape {tuple(y.shape)} for input {tuple(xd.shape)}")
                continue
            n = (y - fx).to(torch.complex128 if (y.is_complex() or fx.is_complex()) else torch.float64)
            pn = float((n.abs() ** 2).mean())
            fxp = float((fx.to(torch.complex128 if fx.is_complex() else torch.float64).abs() ** 2).mean())
            want = val if par == "power" else fxp / 10 ** (val / 10) if par == "snr" else 2 * val ** 2 * (2 if cplx else 1)
            if not (abs(pn - want) <= TOL * want):
                v("power" if par != "snr" else "snr", f"double-precision input, {par}={val}: measured noise power {pn:.6g}, configured {want:.6g} (ratio {pn / want:.4f})", {"val": val, "double": True})
        # ------------- (i-z) signals with exact zeros (on-off keying, zero-padded bursts): the SNR refers to the mean power of the WHOLE signal
        if par == "snr":
            idx = torch.arange(N)
            for mname, mask in (("on-off", (idx % 2 == 0)), ("burst", idx < N // 4), ("sparse", idx % 16 == 3), ("tail-burst,N-37", idx >= N - 37 - 50), ("head-burst,N-37", idx < 45)):
                for val in (values[1], values[len(values) // 2], values[-2]):
                    x = signal(N, 4.0, cplx, 0) * mask.to(torch.float32)
                    if "N-37" in mname:
                        x = x[: N - 37]          # a length that is not a multiple of 64 (nor of any power of two), energy in the last / first samples only
                    run, ref = build(ch, par, val, mode)
                    try:
                        with Seam(Quantile()):
                            y = run(x)
                        fx = ref(x)
                    except Exception as e:  # noqa: BLE001
                        v("raises", f"{mname} signal, snr={val}: {type(e).__name__}: {str(e)[:200]}")
                        continue
                    res.ev(1, nontrivial=1, transitions=1)
                    n = (y - fx).to(torch.complex128 if (y.is_complex() or fx.is_complex()) else torch.float64)
                    pn = float((n.abs() ** 2).mean())
                    fxp = float((fx.to(torch.complex128 if fx.is_complex() else torch.float64).abs() ** 2).mean())
                    want = fxp / 10 ** (val / 10)
                    if not (abs(pn - want) <= TOL * want):
                        v("snr", f"{mname} signal ({float(mask.float().mean()):.3f} of the samples non-zero), snr={val}: measured noise power {pn:.6g}, signal power / SNR = {want:.6g} (ratio {pn / want:.4f})", {"val": val, "mask": mname})
        # ------------- (ii) exact scale law under the alphabet policy (Gaussian channels: y = f(x) + s*z elementwise)
        L = 6
        zs = [0.5, -1.25, 2.0, -0.75, 1.5, -2.5, 0.25, 1.0, -1.0, 3.0, -0.5, 0.75]
        us = [0.1, 0.9, 0.35, 0.6, 0.05, 0.75, 0.45, 0.2, 0.8, 0.55, 0.3, 0.95]
        ans = us if ch == "laplacian" else zs
        for sp in (1e-2, 1.0, 1e2):
            xs = signal(L, sp, cplx, 0)
            noises = {}
            for val in values:
                run, ref = build(ch, par, val, mode)
                try:
                    with Seam(Alphabet(ans)):
                        y = run(xs)
                    nz = (y - ref(xs)).reshape(-1)
                except Exception as e:  # noqa: BLE001
                    v("raises", f"alphabet policy {par}={val}: {type(e).__name__}: {str(e)[:200]}")
                    continue
                res.ev(1, nontrivial=1, transitions=1)
                noises[val] = nz.to(torch.complex128) if nz.is_complex() else nz.to(torch.float64)
                if ch != "laplacian":
                    z = torch.tensor(zs[:L], dtype=torch.float64)
                    parts = [nz.real.to(torch.float64), nz.imag.to(torch.float64)] if nz.is_complex() else [nz.to(torch.float64)]
                    z2 = torch.tensor(zs[L:2 * L], dtype=torch.float64)
                    s0 = parts[0] / z
                    # float32 round-off of y = f(x) + noise is eps*|y| in absolute terms
                    slack = 1e-4 * float(s0.abs().max()) + 4 * 1.2e-7 * float(y.abs().max()) / min(abs(t) for t in zs)
                    if float((s0 - s0[0]).abs().max()) > slack or (len(parts) == 2 and float((parts[1] / z2 - s0[0]).abs().max()) > slack):
                        v("scale-law", f"{par}={val}: noise is not one scalar times the draws: noise/draw = {s0.tolist()}", {"val": val})
            vals_ok = [k for k in values if k in noises]
            for a, b in zip(vals_ok, vals_ok[1:]):
                if par == "power":
                    k = math.sqrt(b / a)
                elif par == "snr":
                    k = math.sqrt(10 ** ((a - b) / 10))
                else:
                    k = b / a
                d = (noises[b] - k * noises[a]).abs().max()
                if float(d) > 2e-4 * float(noises[b].abs().max()) + 1e-12 + 8 * 1.2e-7 * (1 + k) * float(ref(xs).abs().max()):
                    v("scale-law", f"same draws: noise({par}={b}) != {k:.4g} * noise({par}={a}) (signal power {sp:g})", {"a": a, "b": b})
            if par == "snr" and vals_ok:
                # s(a*x, SNR) = a * s(x, SNR)
                run, ref = build(ch, par, vals_ok[len(vals_ok) // 2], mode)
                try:
                    with Seam(Alphabet(ans)):
                        n1 = run(xs) - ref(xs)
                    with Seam(Alphabet(ans)):
                        n2 = run(3.0 * xs) - ref(3.0 * xs)
                    res.ev(2, transitions=2)
                    if ch != "nonlinear-cubic" and float((n2 - 3.0 * n1).abs().max()) > 2e-4 * float(n2.abs().max()) + 2e-6 * float(xs.abs().max()):
                        v("scale-law", f"snr={vals_ok[len(vals_ok) // 2]}: noise for 3*x is not 3 * noise for x")
                except Exception as e:  # noqa: BLE001
                    v("raises", f"scaling input: {type(e).__name__}: {str(e)[:200]}")
        # ------------- (ii') the extreme answers of the generators: a uniform draw may be exactly 0, 2^-24, 0.5 or 1 - 2^-24 (each has probability 2^-24
        # per sample: about once per 1.7e7 samples), a normal draw +-5.4 sigma: the added noise stays finite and zero-mean-symmetric in its law
        ext = [0.0, 2.0 ** -24, 0.5, 1.0 - 2.0 ** -24, 0.25, 0.75] if ch == "laplacian" else [5.4, -5.4, 0.0, 1e-30, -1e-30, 3.0]
        for val in (values[0], values[-1]):
            for cx_ in ([cplx] if ch not in ("awgn", "laplacian") else [cplx]):
                xs = signal(6, 1.0, cplx, 0)
                run, ref = build(ch, par, val, mode)
                try:
                    with Seam(Alphabet(ext, pad=0.5 if ch == "laplacian" else 0.0)):
                        nz = (run(xs) - ref(xs)).reshape(-1)
                except Exception as e:  # noqa: BLE001
                    v("raises", f"extreme draws {ext}, {par}={val}: {type(e).__name__}: {str(e)[:200]}")
                    continue
                res.ev(1, nontrivial=1, transitions=1)
                if not bool(torch.isfinite(torch.view_as_real(nz) if nz.is_complex() else nz).all()):
                    v("power" if par != "snr" else "snr", f"{par}={val}: the generator answers {ext} (each a value the generator does return) give non-finite noise {[complex(t) if nz.is_complex() else float(t) for t in nz.tolist()][:6]}")
        # ------------- (iii) seam-free: same-seed relations, supplied noise verbatim
        xs = signal(64, 1.0, cplx, 1)
        prev = None
        for val in values:
            run, ref = build(ch, par, val, mode)
            torch.manual_seed(1234)
            try:
                nz = run(xs) - ref(xs)
            except Exception as e:  # noqa: BLE001
                v("raises", f"seeded run: {type(e).__name__}: {str(e)[:200]}")
                continue
            res.ev(1, transitions=1)
            if prev is not None:
                a, na = prev
                k = math.sqrt(val / a) if par == "power" else math.sqrt(10 ** ((a - val) / 10)) if par == "snr" else val / a
                if float((nz - k * na).abs().max()) > 5e-4 * float(nz.abs().max()) + 1e-12 + 8 * 1.2e-7 * (1 + k) * float(ref(xs).abs().max()):
                    v("scale-law", f"same seed: noise({par}={val}) != {k:.4g} * noise({par}={a})", {"a": a, "b": val})
            prev = (val, nz)
        # every call consumes fresh randomness: two calls without reseeding (same object, fresh object) give different noise in every sample,
        # the same seed replays it
        try:
            val0 = values[len(values) // 2]
            run, ref = build(ch, par, val0, mode)
            run2, _ = build(ch, par, val0, mode)
            torch.manual_seed(77)
            n1, n2, n3 = run(xs) - ref(xs), run(xs) - ref(xs), run2(xs) - ref(xs)
            torch.manual_seed(77)
            n4 = run(xs) - ref(xs)
            res.ev(3, nontrivial=3, transitions=4)
            s12, s13 = int(((n1 - n2).abs() < 1e-12).sum()), int(((n1 - n3).abs() < 1e-12).sum())
            if s12 or s13:
                v("fresh-noise", f"two calls without reseeding share noise samples: {s12} of {n1.numel()} identical on the same object, {s13} on a fresh object")
            if not torch.equal(n1, n4):
                v("fresh-noise", "the same seed does not replay the same noise")
        except Exception as e:  # noqa: BLE001
            v("raises", f"repeated calls: {type(e).__name__}: {str(e)[:200]}")
        if ch in ("awgn", "flatfading-csi"):
            import kaira.channels as K
            c = K.AWGNChannel(avg_noise_power=0.3) if ch == "awgn" else K.FlatFadingChannel("rayleigh", 3, avg_noise_power=0.3)
            x1 = signal(24, 1.0, cplx, 0)
            sup = (0.01 * torch.arange(24, dtype=torch.float32) - 0.1)
            sup = torch.complex(sup, -sup) if (cplx or ch != "awgn") else sup
            if ch == "awgn":
                y = c(x1, noise=sup)
                want = x1 + sup
            else:
                h = torch.exp(1j * 0.1 * torch.arange(24, dtype=torch.float32))
                y = c(x1, csi=h, noise=sup)
                want = h * x1 + sup
            res.ev(1, transitions=1)
            if not torch.equal(y, want):
                v("verbatim", f"supplied noise is not added verbatim: max deviation {float((y - want).abs().max()):.3g}")
            # every pairing of signal and noise dtypes (noise may be richer than the signal: complex on real, double on single): the output is
            # signal (+ fading) plus exactly that noise, nothing of it dropped or rounded; a channel may decline a pairing
            base_n = 0.01 * torch.arange(24, dtype=torch.float64) - 0.1 + 1e-9 * torch.arange(24, dtype=torch.float64) ** 2
            for xdt in ((torch.complex64, torch.complex128) if cplx else (torch.float32, torch.float64)):
                for ndt in (torch.float32, torch.float64, torch.complex64, torch.complex128):
                    xx = x1.to(xdt)
                    nn = (torch.complex(base_n, -0.5 * base_n) if ndt.is_complex else base_n).to(ndt)
                    try:
                        if ch == "awgn":
                            y = c(xx, noise=nn)
                            want = xx.to(torch.complex128) + nn.to(torch.complex128)
                        else:
                            y = c(xx, csi=h, noise=nn)
                            want = h.to(torch.complex128) * xx.to(torch.complex128) + nn.to(torch.complex128)
                    except Exception:  # noqa: BLE001
                        res.rejected += 1
                        continue
                    res.ev(1, nontrivial=1, transitions=1)
                    # tolerance: one rounding of the result in the promoted precision of (signal, noise)
                    prec = 1.2e-7 if (xdt in (torch.float32, torch.complex64) and ndt in (torch.float32, torch.complex64)) else 2.3e-16
                    if ch != "awgn":
                        prec = max(prec, 1.2e-7 if xdt in (torch.float32, torch.complex64) else 1.2e-7)      # csi is single precision
                    dev = float((y.to(torch.complex128) - want).abs().max())
                    if tuple(y.shape) != tuple(xx.shape) or dev > 4 * prec * float(want.abs().max()):
                        v("verbatim", f"signal {str(xdt)[6:]} + supplied noise {str(ndt)[6:]}: output ({str(y.dtype)[6:]}) deviates from signal + noise by {dev:.3g}", {"x": str(xdt), "n": str(ndt)})
    res.sample({"channel": ch, "param": par, "complex": cplx, "N": N})


def conv_case(p, res):
    import torch
    from kaira.utils.snr import noise_power_to_snr, snr_db_to_linear, snr_linear_to_db, snr_to_noise_power
    v = lambda clause, d: res.viol("snr-utils", "-", clause, d)  # noqa: E731
    grid = [-60.0 + 0.06 * i for i in range(2001)]
    for db in grid:
        lin = snr_db_to_linear(db)
        back = snr_linear_to_db(lin)
        res.ev(1, nontrivial=1, transitions=2)
        if abs(float(lin) - 10 ** (db / 10)) > 1e-5 * 10 ** (db / 10):
            v("conversion", f"snr_db_to_linear({db}) = {float(lin)}")
            break
        if abs(float(back) - db) > 1e-3:
            v("conversion", f"snr_linear_to_db(snr_db_to_linear({db})) = {float(back)}")
            break
    t = torch.tensor(grid, dtype=torch.float64)
    for form, tt in (("1d", t), ("0d", t[777]), ("2d", t[:2000].reshape(40, 50))):
        lin = snr_db_to_linear(tt)
        back = snr_linear_to_db(lin)
        res.ev(int(tt.numel()), transitions=2)
        if float((back - tt).abs().max()) > 1e-6 or float((lin / (10 ** (tt / 10)) - 1).abs().max()) > 1e-9:
            v("conversion", f"tensor form {form}: dB->linear->dB is not the identity")
        lin2 = snr_db_to_linear(snr_linear_to_db(lin))
        if float((lin2 / lin - 1).abs().max()) > 1e-9:
            v("conversion", f"tensor form {form}: linear->dB->linear is not the identity")
    for P in SIG_POW + [2.5]:
        for s in SNRS + [3.0, -7.5]:
            npow = snr_to_noise_power(P, s)
            res.ev(1, transitions=2)
            if abs(float(npow) - P / 10 ** (s / 10)) > 1e-5 * P / 10 ** (s / 10):
                v("conversion", f"snr_to_noise_power({P},{s}) = {float(npow)}, expected {P / 10 ** (s / 10)}")
            s2 = noise_power_to_snr(torch.tensor(P), torch.tensor(P / 10 ** (s / 10)))
            if abs(float(s2) - s) > 1e-3:
                v("conversion", f"noise_power_to_snr({P}, {P / 10 ** (s / 10)}) = {float(s2)}, expected {s}")
            tp = snr_to_noise_power(torch.tensor([P, 2 * P]), torch.tensor(s))
            if abs(float(tp[1]) - 2 * P / 10 ** (s / 10)) > 1e-5 * 2 * P / 10 ** (s / 10):
                v("conversion", f"snr_to_noise_power(tensor) wrong at P={P}, s={s}")
    res.sample({"grid_points": len(grid)})


def metric_case(p, res):
    import torch
    from kaira.metrics.signal.snr import SignalToNoiseRatio
    from kaira.utils.snr import calculate_snr
    from kmc.rngseam import Quantile, Seam
    import kaira.channels as K
    v = lambda clause, d: res.viol("snr-metric", "-", clause, d)  # noqa: E731
    N = 4096
    for cplx in (False, True):
        for sp in SIG_POW:
            for snr in SNRS:
                x = signal(N, sp, cplx, 0)
                if sp / 10 ** (snr / 10) < 1e-4:
                    continue  # below the metric's documented eps regularisation the tools are not required to agree
                i = torch.arange(N, dtype=torch.float64)
                nz = torch.cos(1.7 * i + 0.3) * math.sqrt(2.0)
                nz = torch.complex(nz, torch.sin(0.9 * i) * math.sqrt(2.0)) / math.sqrt(2.0) if cplx else nz
                nz = (nz * math.sqrt(sp / 10 ** (snr / 10))).to(x.dtype)
                y = x + nz
                ref = 10 * math.log10(float((x.abs().double() ** 2).mean()) / float(((y - x).abs().double() ** 2).mean()))
                a = float(calculate_snr(x, y))
                b = float(SignalToNoiseRatio()(x, y))
                c = float(SignalToNoiseRatio(mode="linear")(x, y))
                xb, yb = x.reshape(4, -1), y.reshape(4, -1)
                bb = SignalToNoiseRatio()(xb, yb)
                refb = [10 * math.log10(float((xb[r].abs().double() ** 2).mean()) / float(((yb[r] - xb[r]).abs().double() ** 2).mean())) for r in range(4)]
                res.ev(4, nontrivial=4, transitions=4)
                if abs(a - ref) > 1e-2 or abs(b - ref) > 1e-2 or abs(10 * math.log10(c) - ref) > 1e-2:
                    v("metric-agrees", f"{'complex' if cplx else 'real'} P={sp}, true SNR {ref:.4f} dB: calculate_snr={a:.4f}, SignalToNoiseRatio={b:.4f}, linear mode={c:.5g}")
                if tuple(bb.shape) != (4,) or max(abs(float(t) - r) for t, r in zip(bb, refb)) > 1e-2:
                    v("metric-agrees", f"batched SignalToNoiseRatio {bb.tolist()} vs per-row reference {refb}")
        # complex signals whose power is NOT split evenly between real and imaginary part (BPSK / PAM stored in a complex tensor, purely
        # imaginary, I/Q-unbalanced), batched and un-batched: |x|^2 = re^2 + im^2 in every branch of every tool
        if cplx:
            i = torch.arange(N, dtype=torch.float64)
            re = torch.cos(0.37 * i + 0.1) * math.sqrt(2.0)
            im = torch.sin(0.53 * i) * math.sqrt(2.0)
            nzr = torch.complex(0.3 * torch.cos(1.7 * i + 0.3), 0.2 * torch.sin(0.9 * i)).to(torch.complex64)
            for nm, xs_ in (("real-only", torch.complex(re, 0 * re)), ("imag-only", torch.complex(0 * im, im)), ("unbalanced", torch.complex(re, 0.2 * im))):
                x = xs_.to(torch.complex64)
                y = x + nzr
                for lay, xx, yy in (("1d", x, y), ("4xN", x.reshape(4, -1), y.reshape(4, -1)), ("2x2xN", x.reshape(2, 2, -1), y.reshape(2, 2, -1))):
                    refs = [10 * math.log10(float((xr.abs().double() ** 2).mean()) / float(((yr - xr).abs().double() ** 2).mean()))
                            for xr, yr in (zip(xx, yy) if lay != "1d" else [(xx, yy)])]
                    got = SignalToNoiseRatio()(xx, yy).reshape(-1).tolist()
                    lin = SignalToNoiseRatio(mode="linear")(xx, yy).reshape(-1).tolist()
                    cs = calculate_snr(xx, yy, dim=tuple(range(1, xx.dim())) if lay != "1d" else None).reshape(-1).tolist()
                    res.ev(3, nontrivial=3, transitions=3)
                    if len(got) != len(refs) or max(abs(a_ - b_) for a_, b_ in zip(got, refs)) > 1e-2 or max(abs(10 * math.log10(max(a_, 1e-30)) - b_) for a_, b_ in zip(lin, refs)) > 1e-2:
                        v("metric-agrees", f"{nm} complex signal, layout {lay}: SignalToNoiseRatio {[round(t_, 3) for t_ in got]} dB / linear {[round(t_, 4) for t_ in lin]} vs true {[round(t_, 3) for t_ in refs]} dB")
                    if len(cs) != len(refs) or max(abs(a_ - b_) for a_, b_ in zip(cs, refs)) > 1e-2:
                        v("metric-agrees", f"{nm} complex signal, layout {lay}: calculate_snr {[round(t_, 3) for t_ in cs]} vs true {[round(t_, 3) for t_ in refs]} dB")
        # channel output measured with both tools returns the configured SNR
        for snr in SNRS:
            x = signal(2 ** 14, 1.0, cplx, 0)
            with Seam(Quantile()):
                y = K.AWGNChannel(snr_db=snr)(x)
            a, b = float(calculate_snr(x, y)), float(SignalToNoiseRatio()(x, y))
            res.ev(2, transitions=3)
            if abs(a - snr) > 0.1 or abs(b - snr) > 0.1:
                v("metric-agrees", f"AWGN configured at {snr} dB measured as {a:.3f} dB (calculate_snr) / {b:.3f} dB (SignalToNoiseRatio)")
    # per-row forms: add_noise_for_snr(signal, snr, dim=1) calibrates every row on its own; calculate_snr(dim=...) measures per row
    from kaira.utils.snr import add_noise_for_snr, estimate_signal_power
    for cplx in (False, True):
        rows = [signal(4096, p_, cplx, 0) for p_ in (1e-2, 1.0, 25.0)]
        X = torch.stack(rows)
        for snr in (-5.0, 10.0, 30.0):
            with Seam(Quantile()):
                Y, Nz = add_noise_for_snr(X, snr, dim=1)
            res.ev(3, nontrivial=3, transitions=2)
            per = calculate_snr(X, Y, dim=1)
            ref_rows = [10 * math.log10(float((X[r].abs().double() ** 2).mean()) / float(((Y[r] - X[r]).abs().double() ** 2).mean())) for r in range(3)]
            if tuple(per.shape) != (3,) or max(abs(float(a_) - b_) for a_, b_ in zip(per, ref_rows)) > 1e-2:
                v("metric-agrees", f"calculate_snr(dim=1) = {per.tolist()} vs per-row reference {ref_rows}")
            if max(abs(r_ - snr) for r_ in ref_rows) > 0.05:
                v("snr", f"add_noise_for_snr(dim=1, {snr} dB): per-row SNRs {ref_rows}")
            if not torch.equal(Y, X + Nz):
                v("verbatim", "add_noise_for_snr: returned noisy signal is not signal + returned noise")
        pw = estimate_signal_power(X, dim=1)
        refp = [float((X[r].abs().double() ** 2).mean()) for r in range(3)]
        if max(abs(float(a_) - b_) / b_ for a_, b_ in zip(pw, refp)) > 1e-5:
            v("conversion", f"estimate_signal_power(dim=1) = {pw.tolist()} vs {refp}")
    res.sample({"metric_points": "signal powers x SNRs x real/complex"})


def dims_case(p, res):
    """every spelling of the `dim` argument (positive, negative, int, tuple, None) of add_noise_for_snr / calculate_snr / estimate_signal_power on
    2-D and 3-D signals whose slices have powers spread over four decades: every slice is calibrated / measured on its own, and two spellings of
    the same axes give the same numbers.  Only axes of length >= 2048 are reduced, so every slice holds complete quantile grids."""
    import torch
    from kaira.utils.snr import add_noise_for_snr, calculate_snr, estimate_signal_power
    from kmc.rngseam import Quantile, Seam
    lay, cplx = p["lay"], p["cplx"]
    N = 2048
    pw = [1e-2, 1.0, 25.0, 0.3, 4.0, 100.0]
    if lay == "3xN":
        X = torch.stack([signal(N, pw[r], cplx, 0) for r in range(3)])
        forms = {(1,): [1, -1, (1,), (-1,)], (0, 1): [None, (0, 1), (-2, -1), (0, -1), (-2, 1)]}
    elif lay == "Nx3":
        X = torch.stack([signal(N, pw[r], cplx, 0) for r in range(3)]).t().contiguous()
        forms = {(0,): [0, -2, (0,), (-2,)], (0, 1): [None, (1, 0), (-1, -2)]}
    else:
        X = torch.stack([torch.stack([signal(N, pw[3 * i + j], cplx, 0) for j in range(3)]) for i in range(2)])
        forms = {(2,): [2, -1, (2,), (-1,)], (1, 2): [(1, 2), (-2, -1), (1, -1), (-2, 2)], (0, 2): [(0, 2), (-3, -1), (0, -1)], (0, 1, 2): [None, (0, 1, 2), (-3, -2, -1)]}
    cfg = f"{lay},{'complex' if cplx else 'real'}"
    v = lambda clause, d, f=None: res.viol("snr-utils", cfg, clause, d, f)  # noqa: E731

    def red(t, axes):
        return (t.abs().double() ** 2).mean(dim=axes, keepdim=True)
    for axes, spellings in forms.items():
        refp = red(X, axes)
        first = {}
        for d in spellings:
            for keep in (False, True):
                est = estimate_signal_power(X, dim=d, keepdim=keep)
                want = refp if keep else refp.reshape([s_ for a_, s_ in enumerate(refp.shape) if a_ not in axes])
                res.ev(1, transitions=1)
                if d is None and not keep:
                    want = refp.reshape(())
                if tuple(est.shape) != tuple(want.shape) and not (d is None and keep):
                    v("conversion", f"estimate_signal_power(dim={d}, keepdim={keep}) has shape {tuple(est.shape)}, expected {tuple(want.shape)}")
                elif float(((est.double().reshape(-1) - want.reshape(-1)).abs() / want.reshape(-1)).max()) > 1e-4:
                    v("conversion", f"estimate_signal_power(dim={d}, keepdim={keep}) = {est.reshape(-1).tolist()[:6]} vs {want.reshape(-1).tolist()[:6]}", {"dim": str(d)})
            for snr in (-5.0, 10.0, 30.0):
                with Seam(Quantile()):
                    Y, Nz = add_noise_for_snr(X, snr, dim=d)
                res.ev(int(refp.numel()), nontrivial=int(refp.numel()), transitions=2)
                if tuple(Y.shape) != tuple(X.shape) or Y.dtype != X.dtype:
                    v("snr", f"add_noise_for_snr(dim={d}) returned shape {tuple(Y.shape)} / dtype {Y.dtype}")
                    continue
                if not torch.equal(Y, X + Nz):
                    v("verbatim", f"add_noise_for_snr(dim={d}): returned noisy signal is not signal + returned noise")
                got = 10 * torch.log10(refp / red(Nz, axes))
                worst = float((got - snr).abs().max())
                if not worst <= 0.05:
                    v("snr", f"add_noise_for_snr(dim={d}, {snr} dB): per-slice SNRs {[round(g, 3) for g in got.reshape(-1).tolist()]} (slices = axes {axes} reduced)", {"dim": str(d), "snr": snr})
                meas = calculate_snr(X, Y, dim=d)
                if meas.numel() != got.numel() or float((meas.double().reshape(-1) - got.reshape(-1)).abs().max()) > 1e-2:
                    v("metric-agrees", f"calculate_snr(dim={d}) = {meas.reshape(-1).tolist()[:6]} vs per-slice reference {got.reshape(-1).tolist()[:6]}", {"dim": str(d)})
                if snr not in first:
                    first[snr] = (d, Nz)
                elif not torch.allclose(first[snr][1], Nz, rtol=1e-5, atol=0):
                    v("snr", f"add_noise_for_snr: dim={d} and dim={first[snr][0]} name the same axes but give different noise for the same random answers", {"dim": str(d)})
    res.sample({"layout": lay, "complex": cplx, "dim_spellings": sum(len(v_) for v_ in forms.values())})


# ----------------------------------------------------------------------------- spelling equivalence of the constructors behind this property
# (positional / keyword / mixed spellings of one legal call configure the same object; shared helper kmc/spelling.py)
_cases0, _execute0, _component0 = cases, execute, component_of


def cases(tier, seed):  # noqa: F811
    yield from _cases0(tier, seed)
    yield f"{PID}|spelling", {"kind": "spelling", "tier": tier}


def execute(p, res):  # noqa: F811
    if p.get("kind") == "spelling":
        from kmc import spelling
        return spelling.run(PID, res)
    return _execute0(p, res)


def component_of(p):  # noqa: F811
    return "spelling" if p.get("kind") == "spelling" else _component0(p)


# ----------------------------------------------------------------------------- life-cycle equivalence of the components behind this property
# (deep copy / pickle / state_dict / eval-train / cast round trip / no_grad ... leave the behaviour unchanged; shared helper kmc/lifecycle.py)
_cases1, _execute1, _component1 = cases, execute, component_of


def cases(tier, seed):  # noqa: F811
    yield from _cases1(tier, seed)
    yield f"{PID}|lifecycle", {"kind": "lifecycle", "tier": tier}


def execute(p, res):  # noqa: F811
    if p.get("kind") == "lifecycle":
        from kmc import lifecycle
        return lifecycle.run(PID, res)
    return _execute1(p, res)


def component_of(p):  # noqa: F811
    return "lifecycle" if p.get("kind") == "lifecycle" else _component1(p)
