"""C01 – encoder, published G and published H describe one and the same code (E1)."""
from kmc import catalogue as C
from kmc.ref import gf2

PID = "C01"
ENGINE = "kmc-E1-space"
RULE = ("catalogue of every constructible code up to the size bound x all 2^k messages (k<=12, structured set above) x all 2^n words "
        "(n<=12 quick / 16 thorough, else codeword xor every weight-1/2 pattern); a state is one (code, message) or (code, word) "
        "point; non-trivial = non-zero message / word")
ASSUME = ["GF(2) reference kmc/ref/gf2.py (self-tested)", "float32 {0,1} tensors are how bits are presented to the encoders"]
HORIZON = {"quick": 240, "thorough": 3600}
PER_CASE = {"generic": 120, "systematic": 40, "ldpc": 80, "cyclic": 20, "hamming": 8, "bch": 6, "*": 6}


def bounds(tier):
    return {"all_words_n": 12 if tier == "quick" else 16, "all_messages_k": 12,
            "families": sorted(C.FAMILIES), "generic_all_fullrank": "k<n<=4 (+square n<=3)" if tier == "quick" else "n<=5 (k=4,n=5: rotating shard)"}


def cases(tier, seed):
    for cid, specs in C.grouped(tier, seed, PER_CASE, prefix="C01|"):
        yield cid, {"specs": specs, "tier": tier}
    for i, seq in enumerate(C.mixing_sequences()):
        yield f"C01|mixing|{i:02d}|{seq[0][0]}", {"specs": seq, "tier": tier}
    if tier == "quick":
        # both ends of the stated ranges in the quick tier as well: the larger fields GF(32), GF(64) for BCH / RS-style codes, Hamming mu = 5, 6
        extra = [s_ for s_ in C.bch("thorough", seed) if s_[2].get("mu") in (5, 6) and s_[2].get("delta") in (3, 5, 7, 11, 15, 21, 27, 31, 63) and "dtype" not in s_[2]]
        extra += [s_ for s_ in C.hamming("thorough", seed) if s_[2].get("mu") in (5, 6) and isinstance(s_[2].get("info"), str)]
        for i in range(0, len(extra), 4):
            yield f"C01|{extra[i][0]}|x{i // 4:03d}|{extra[i][1]}..", {"specs": extra[i:i + 4], "tier": tier}
    # an encoder RESTORED from a checkpoint: B.load_state_dict(A.state_dict()) for two differently configured encoders of one class and size;
    # the restored object must again describe one code (all clauses are evaluated on it)
    for i, seq in enumerate(C.restore_pairs()):
        yield f"C01|restore|{i:02d}|{seq[0][0]}", {"specs": seq, "tier": tier, "restore": True}


def component_of(p):
    return p["specs"][0][0]


def execute(p, res):
    if p.get("restore"):
        specs = p["specs"]
        for a, b in zip(specs, specs[1:]):
            encA, encB = construct(a, res), construct(b, res)
            if encA is None or encB is None:
                continue
            cfg = f"{b[1]} <- state of {a[1]}"
            try:
                encB.load_state_dict(encA.state_dict())
            except Exception:  # noqa: BLE001
                res.rejected += 1           # shapes / keys differ: the checkpoint is declined
                continue
            check_code((a[0], cfg, a[2]), p["tier"], res, enc=encB)
        return
    for spec in p["specs"]:
        check_code(spec, p["tier"], res)


def construct(spec, res, pid_component=None):
    """build the encoder; a constructor exception is a rejection unless the parameters are known-admissible."""
    fam, cfg, prm = spec
    try:
        return C.build(spec)
    except Exception as e:  # noqa: BLE001
        admissible = prm.get("admissible", True) and not prm.get("may_reject", False)
        G = prm.get("G")
        if fam == "generic" and G is not None and len(G["__tensor__"]) == len(G["__tensor__"][0]):
            admissible = False  # k == n: no redundancy; the library may decline
        if fam == "repetition" and prm.get("n") == 1:
            admissible = False
        if admissible:
            res.viol(pid_component or fam, cfg, "raises", f"constructor: {type(e).__name__}: {e}")
        else:
            res.rejected += 1
        return None


def check_code(spec, tier, res, enc=None):
    import torch
    fam, cfg, prm = spec
    if enc is None:
        enc = construct(spec, res)
    if enc is None:
        return
    if fam == "bch" and not prm.get("admissible", True):
        res.bump("built_from_inadmissible")
    code = C.Code(enc)
    n, k = code.n, code.k
    v = lambda clause, detail, focus=None: res.viol(fam, cfg, clause, detail, focus)  # noqa: E731
    res.outcome((fam, n, k))

    # --- published dimensions
    if code.G_shape != (k, n) or int(enc.redundancy) != n - k or not (0 < k <= n):
        v("dims", f"code_length={n} code_dimension={k} redundancy={enc.redundancy} G.shape={code.G_shape}")
        return
    # --- G binary, full rank
    if not code.G_binary or gf2.rank(code.G) != k:
        v("G-rank", f"G binary={code.G_binary} rank={gf2.rank(code.G)} k={k}")
    # --- encoder(m) == m.G for every message, one batched call
    msgs = C.message_set(k)
    try:
        cws, raw = code.encode_ints(msgs)
    except Exception as e:  # noqa: BLE001
        v("raises", f"encoder(all messages): {type(e).__name__}: {e}")
        return
    res.ev(len(msgs), nontrivial=len(msgs) - 1, transitions=1)
    if tuple(raw.shape) != (len(msgs), n):
        v("enc=mG", f"output shape {tuple(raw.shape)} for input {(len(msgs), k)}")
        return
    bad = [(m, c) for m, c in zip(msgs, cws) if c is None or c != gf2.vec_mat(m, code.G)]
    if bad:
        m, c = bad[0]
        v("enc=mG", f"{len(bad)}/{len(msgs)} messages: m={gf2.bits(m, k)} -> {None if c is None else gf2.bits(c, n)} but m.G={gf2.bits(gf2.vec_mat(m, code.G), n)}", {"m": m})
    if len(set(cws)) != len(msgs):
        v("injective", f"{len(msgs)} messages -> {len(set(cws))} distinct codewords")
    # the code as produced by the encoder (linear span of what it outputs), independent of the published G
    produced = [c for c in cws if c is not None]
    span_enc = gf2.rref(produced if len(produced) <= 4096 else produced[:4096])
    if k <= 12 and len(span_enc[0]) != k:
        v("linear", f"encoder image spans dimension {len(span_enc[0])}, k={k}")
    # 1-D presentation of first / last message (member-by-member sub-lattice)
    for m in (msgs[1 % len(msgs)], msgs[-1]):
        try:
            y1 = enc(torch.tensor(gf2.bits(m, k), dtype=torch.float32))
            res.ev(1, transitions=1, nontrivial=0, states=0)
            if tuple(y1.shape) != (n,) or C.tensor_to_ints(y1.unsqueeze(0))[0] != gf2.vec_mat(m, code.G):
                v("enc=mG", f"1-D message {gf2.bits(m, k)} -> {y1.tolist()}", {"m": m, "layout": "1d"})
        except Exception as e:  # noqa: BLE001
            v("raises", f"encoder(1-D message): {type(e).__name__}: {e}")

    # --- H: binary, n columns, rank n-k, G.H^T = 0  (=> null(H) == code by dimension count)
    Hok = True
    if n - k > 0:
        if len(code.H_shape) != 2 or code.H_shape[1] != n or not code.H_binary:
            v("H-rank", f"H.shape={code.H_shape} binary={code.H_binary}")
            Hok = False
        else:
            rk = gf2.rank(code.H)
            if rk != n - k:
                v("H-rank", f"rank(H)={rk} but n-k={n - k}; H={code.H}")
                Hok = False
            if any(gf2.mat_vec(code.H, g) for g in code.G):
                v("GHt", f"G.H^T != 0; G={code.G} H={code.H}")
                Hok = False
    # --- syndrome through the API: zero iff codeword
    if n <= (12 if tier == "quick" else 16):
        words = list(range(1 << n))
    else:
        base = [c for c in produced[:6]] + [produced[-1]]
        if n <= 64:
            pats = [0] + [1 << i for i in range(n)] + [(1 << i) | (1 << j) for i in range(n) for j in range(i)]
        else:   # long codes: every single position, and pairs (i, i-1), (i, i//2), (i, 0); three base codewords
            base = [produced[0], produced[len(produced) // 2], produced[-1]]
            pats = [0] + [1 << i for i in range(n)] + [(1 << i) | (1 << j) for i in range(1, n) for j in {i - 1, i // 2, 0}]
        words = sorted({c ^ e for c in base for e in pats})
    basis_pub = gf2.rref(code.G)
    chunk = 1 << 14
    if fam == "rm":
        # the library's nearest-codeword syndrome materialises a (2^k, B, n) tensor: bound B, and do not
        # ask for it at all beyond k = 14 (resource exhaustion is not part of the property)
        if k > 14:
            res.undecided += 1
            res.bump("rm_syndrome_skipped_k>14")
            words = []
        chunk = max(1, (1 << 24) // ((1 << k) * n))
    n_bad = 0
    first_bad = None
    for off in range(0, len(words), chunk):
        ws = words[off:off + chunk]
        x = torch.tensor([gf2.bits(w, n) for w in ws], dtype=torch.float32)
        try:
            s = enc.calculate_syndrome(x)
        except Exception as e:  # noqa: BLE001
            v("raises", f"calculate_syndrome: {type(e).__name__}: {e}")
            break
        res.ev(len(ws), nontrivial=len(ws) - (1 if off == 0 else 0), transitions=1)
        if s.dim() != 2 or s.shape[0] != len(ws) or (fam not in ("rm", "ldpc") and s.shape[1] != n - k):
            v("syn-iff", f"syndrome shape {tuple(s.shape)} for {len(ws)} words, n-k={n - k}")
            break
        zero = (s == 0).all(dim=1).tolist() if s.shape[1] else [True] * len(ws)
        for w, z in zip(ws, zero):
            inc = gf2.in_span(w, basis_pub)
            if z != inc:
                n_bad += 1
                if first_bad is None:
                    first_bad = (w, z, inc)
    if n_bad:
        w, z, inc = first_bad
        v("syn-iff", f"{n_bad}/{len(words)} words: e.g. word {gf2.bits(w, n)} syndrome_zero={z} but in_code={inc}", {"w": w})
    res.sample({"family": fam, "cfg": cfg, "n": n, "k": k, "messages": len(msgs), "words": len(words), "H_ok": Hok})


# ----------------------------------------------------------------------------- spelling equivalence of the constructors behind this property
# (positional / keyword / mixed spellings of one legal call configure the same object; shared helper kmc/spelling.py)
_cases0, _execute0, _component0 = cases, execute, component_of


def cases(tier, seed):  # noqa: F811
    yield from _cases0(tier, seed)
    yield f"{PID}|spelling", {"kind": "spelling", "tier": tier}


def execute(p, res):  # noqa: F811
    if p.get("kind") == "spelling":
        from kmc import spelling
        return spelling.run(PID, res)
    return _execute0(p, res)


def component_of(p):  # noqa: F811
    return "spelling" if p.get("kind") == "spelling" else _component0(p)


# ----------------------------------------------------------------------------- life-cycle equivalence of the components behind this property
# (deep copy / pickle / state_dict / eval-train / cast round trip / no_grad ... leave the behaviour unchanged; shared helper kmc/lifecycle.py)
_cases1, _execute1, _component1 = cases, execute, component_of


def cases(tier, seed):  # noqa: F811
    yield from _cases1(tier, seed)
    yield f"{PID}|lifecycle", {"kind": "lifecycle", "tier": tier}


def execute(p, res):  # noqa: F811
    if p.get("kind") == "lifecycle":
        from kmc import lifecycle
        return lifecycle.run(PID, res)
    return _execute1(p, res)


def component_of(p):  # noqa: F811
    return "lifecycle" if p.get("kind") == "lifecycle" else _component1(p)
