"""C04 – encode followed by the encoder's own inverse is the identity, blockwise, in every layout (E1)."""
from kmc import catalogue as C
from kmc.props.c01 import construct
from kmc.ref import gf2

PID = "C04"
ENGINE = "kmc-E1-space"
RULE = ("catalogue x inverse in {inverse_encode, extract_message, project_word} x layouts {1-D, (N,k), (1,k), (N/3,3,k), (N/b, b*k) b=2..4, "
        "(2,N/2b,b*k)} each filled with ALL messages of the message set (all 2^k for k<=12) + rejection of non-multiple last dims; "
        "a state is one (code, inverse, layout, message) point; non-trivial = non-zero message")
ASSUME = ["GF(2) reference kmc/ref/gf2.py"]
HORIZON = {"quick": 240, "thorough": 3600}
PER_CASE = {"generic": 100, "systematic": 40, "ldpc": 80, "cyclic": 16, "hamming": 6, "bch": 4, "*": 4}


def bounds(tier):
    return {"blocks_per_last_dim": "1..3" if tier == "quick" else "1..4", "all_messages_k": 12, "families": sorted(C.FAMILIES)}


def cases(tier, seed):
    for cid, specs in C.grouped(tier, seed, PER_CASE, prefix="C04|"):
        yield cid, {"specs": specs, "tier": tier}
    for i, seq in enumerate(C.mixing_sequences()):
        yield f"C04|mixing|{i:02d}|{seq[0][0]}", {"specs": seq, "tier": tier}
    if tier == "quick":
        # both ends of the stated ranges in the quick tier as well: the larger fields GF(32), GF(64) for BCH / RS-style codes, Hamming mu = 5, 6
        extra = [s_ for s_ in C.bch("thorough", seed) if s_[2].get("mu") in (5, 6) and s_[2].get("delta") in (3, 5, 7, 11, 15, 21, 27, 31, 63) and "dtype" not in s_[2]]
        extra += [s_ for s_ in C.hamming("thorough", seed) if s_[2].get("mu") in (5, 6) and isinstance(s_[2].get("info"), str)]
        for i in range(0, len(extra), 4):
            yield f"C04|{extra[i][0]}|x{i // 4:03d}|{extra[i][1]}..", {"specs": extra[i:i + 4], "tier": tier}
    # encoders restored from another encoder's checkpoint (B.load_state_dict(A.state_dict())): encode followed by the restored object's own
    # extraction is again the identity
    for i, seq in enumerate(C.restore_pairs()):
        yield f"C04|restore|{i:02d}|{seq[0][0]}", {"specs": seq, "tier": tier, "restore": True}
    # block-count arithmetic: EVERY (n, k) with k < n <= 64 [96] x b = 1..8 concatenated blocks (shapes only depend on n, k, b)
    for n in range(2, 65 if tier == "quick" else 97):
        yield f"C04|dims|n={n:02d}", {"dims_n": n, "tier": tier}
    # many blocks in one call (5000 / 4500 / 4600 blocks: beyond 4096 and not a multiple of it), non-periodic messages, three layouts
    for nm in ("hamming3", "bch15_7", "rm13", "generic", "systematic", "cyclic7", "ldpc", "golay", "rep5", "spc4"):
        yield f"C04|many-blocks|{nm}", {"big": nm, "tier": tier}


def component_of(p):
    return "dims" if "dims_n" in p else "many-blocks" if "big" in p else p["specs"][0][0]


def execute(p, res):
    if "dims_n" in p:
        return dims_case(p, res)
    if "big" in p:
        return big_case(p, res)
    if p.get("restore"):
        specs = p["specs"]
        for a, b in zip(specs, specs[1:]):
            encA, encB = construct(a, res), construct(b, res)
            if encA is None or encB is None:
                continue
            try:
                encB.load_state_dict(encA.state_dict())
            except Exception:  # noqa: BLE001
                res.rejected += 1
                continue
            check((a[0], f"{b[1]} <- state of {a[1]}", a[2]), p["tier"], res, enc=encB)
        return
    for spec in p["specs"]:
        check(spec, p["tier"], res)


def big_case(p, res):
    import torch
    from kaira.models.fec import encoders as E
    nm = p["big"]
    enc = {"hamming3": lambda: E.HammingCodeEncoder(3), "bch15_7": lambda: E.BCHCodeEncoder(4, 5, information_set="right"), "rm13": lambda: E.ReedMullerCodeEncoder(1, 3),
           "generic": lambda: E.LinearBlockCodeEncoder(generator_matrix=torch.tensor([[1.0, 1, 0, 1, 0], [0, 1, 1, 1, 1]])),
           "systematic": lambda: E.SystematicLinearBlockCodeEncoder(parity_submatrix=torch.tensor([[1.0, 1, 0], [0, 1, 1]]), information_set=[4, 1]),
           "cyclic7": lambda: E.CyclicCodeEncoder(7, generator_polynomial=0b1011), "ldpc": lambda: E.LDPCCodeEncoder(check_matrix=torch.tensor([[1.0, 1, 0, 1, 0, 0], [0, 1, 1, 0, 1, 0], [0, 0, 0, 1, 1, 1]])),
           "golay": lambda: E.GolayCodeEncoder(), "rep5": lambda: E.RepetitionCodeEncoder(5), "spc4": lambda: E.SingleParityCheckCodeEncoder(4)}[nm]()
    n, k = int(enc.code_length), int(enc.code_dimension)
    for lay, shape in (("(5000,k)", (5000, k)), ("(50,30,3k)", (50, 30, 3 * k)), ("(2300,2k)", (2300, 2 * k))):
        tot = 1
        for s_ in shape:
            tot *= s_
        # fixed pseudo-random bits from a private generator (low bits of polynomial index sequences are periodic with power-of-two periods - exactly
        # what a slab size of 4096 blocks would hide behind)
        x = torch.randint(0, 2, shape, generator=torch.Generator().manual_seed(1504 + k)).to(torch.float32)
        cfg = f"{nm},{lay}"
        try:
            y = enc(x)
            small = enc(x.reshape(-1, k)[4090:4103])
            back = enc.inverse_encode(y)
            back = back[0] if isinstance(back, tuple) else back
        except Exception as e:  # noqa: BLE001
            res.viol("many-blocks", cfg, "raises", f"{type(e).__name__}: {str(e)[:200]}")
            continue
        res.ev(tot // k, nontrivial=tot // k, transitions=3)
        if not torch.equal(y.reshape(-1, n)[4090:4103], small):
            res.viol("many-blocks", cfg, "identity", f"blocks 4090..4102 of {tot // k} blocks in one call are encoded differently from the same blocks encoded alone")
        elif tuple(back.shape) != tuple(x.shape) or not torch.equal(back.to(torch.float32), x):
            j = int((back.to(torch.float32).reshape(-1, k) != x.reshape(-1, k)).any(dim=1).nonzero()[0]) if tuple(back.shape) == tuple(x.shape) else -1
            res.viol("many-blocks", cfg, "identity", f"encode followed by inverse_encode on {tot // k} blocks: block {j} is not recovered (shape {tuple(back.shape)})", {"block": j})
        try:
            ex = enc.extract_message(y)
            if tuple(ex.shape) != tuple(x.shape) or not torch.equal(ex.to(torch.float32), x):
                res.viol("many-blocks", cfg, "identity", f"extract_message after encode on {tot // k} blocks does not return the messages")
        except (AttributeError, NotImplementedError):
            pass
        except Exception as e:  # noqa: BLE001
            res.viol("many-blocks", cfg, "raises", f"extract_message: {type(e).__name__}: {str(e)[:200]}")
    res.outcome((nm, n, k))
    res.sample({"encoder": nm, "n": n, "k": k})


def dims_case(p, res):
    """for one length n and every dimension k < n: a systematic code (its own class), the same code as a plain generator matrix (the generic
    class), plus repetition / single-parity-check codes of that length; three messages per layout, b = 1..8 blocks per row, rows 1 and 3:
    encode has b*n columns, inverse_encode / extract_message give the messages back"""
    import torch
    from kaira.models.fec import encoders as E
    n = p["dims_n"]
    for k in range(1, n):
        P = [[1 if (i * j + i + 2 * j) % 3 == 0 or j == (i % (n - k)) else 0 for j in range(n - k)] for i in range(k)]
        G = [[1 if i == j else 0 for j in range(k)] + P[i] for i in range(k)]
        encs = [("systematic", lambda: E.SystematicLinearBlockCodeEncoder(parity_submatrix=torch.tensor(P, dtype=torch.float32)))]
        if k % 3 == 1 or n <= 24:
            encs.append(("generic", lambda: E.LinearBlockCodeEncoder(torch.tensor(G, dtype=torch.float32))))
        if k == 1:
            encs.append(("repetition", lambda: E.RepetitionCodeEncoder(n)))
        if k == n - 1:
            encs.append(("spc", lambda: E.SingleParityCheckCodeEncoder(k)))
        for fam, mk in encs:
            cfg = f"{fam},n={n},k={k}"
            try:
                enc = mk()
            except Exception as e:  # noqa: BLE001
                res.viol("dims", cfg, "raises", f"constructor: {type(e).__name__}: {str(e)[:160]}")
                continue
            for b in range(1, 9):
                for rows in (1, 3):
                    m = torch.tensor([[(r + c * (r + 1) + (c // k)) % 2 for c in range(b * k)] for r in range(rows)], dtype=torch.float32)
                    for lay in ("2d", "1d") if rows == 1 else ("2d",):
                        x = m if lay == "2d" else m[0]
                        try:
                            cw = enc(x)
                            back = enc.inverse_encode(cw)
                            back = back[0] if isinstance(back, tuple) else back
                            ext = enc.extract_message(cw) if hasattr(enc, "extract_message") else back
                        except Exception as e:  # noqa: BLE001
                            res.viol("dims", cfg, "raises", f"b={b} blocks, message shape {tuple(x.shape)}: {type(e).__name__}: {str(e)[:160]}", {"b": b})
                            break
                        res.ev(1, nontrivial=1, transitions=3)
                        if tuple(cw.shape) != tuple(x.shape[:-1]) + (b * n,):
                            res.viol("dims", cfg, "identity", f"b={b}: message shape {tuple(x.shape)} encoded to {tuple(cw.shape)}, expected last dimension {b * n}", {"b": b})
                            break
                        if tuple(back.shape) != tuple(x.shape) or not torch.equal(back.to(torch.float32), x) or tuple(ext.shape) != tuple(x.shape) or not torch.equal(ext.to(torch.float32), x):
                            res.viol("dims", cfg, "identity", f"b={b}, message shape {tuple(x.shape)}: inverse_encode -> {tuple(back.shape)}, extract_message -> {tuple(ext.shape)}; not the messages", {"b": b})
                            break
                    else:
                        continue
                    break
                else:
                    continue
                break
    res.sample({"n": n, "dimensions": n - 1, "blocks": "1..8"})


def _layouts(N, k, tier):
    """name -> (shape-of-message-tensor, blocks per last dim). The flattened tensor is the message sequence, padded cyclically."""
    L = [("2d", (N, k), 1), ("3d", (-(-N // 3), 3, k), 1)]
    for b in ((2, 3) if tier == "quick" else (2, 3, 4)):
        L.append((f"2d-x{b}", (-(-N // b), b * k), b))
    L.append(("3d-x2", (2, -(-N // 4), 2 * k), 2))
    return L


def _fill(msgs, shape, k):
    import torch
    total = 1
    for s in shape:
        total *= s
    nblk = total // k
    seq = [msgs[i % len(msgs)] for i in range(nblk)]
    flat = [b for m in seq for b in gf2.bits(m, k)]
    return torch.tensor(flat, dtype=torch.float32).reshape(shape)


def check(spec, tier, res, enc=None):
    import torch
    fam, cfg, prm = spec
    if enc is None:
        enc = construct(spec, res)
    if enc is None:
        return
    n, k = int(enc.code_length), int(enc.code_dimension)
    msgs = C.message_set(k)
    if len(msgs) > 1024 and tier == "quick":
        msgs = msgs[:512] + msgs[-512:]
    N = len(msgs)
    inverses = ["inverse_encode", "extract_message"] + (["project_word"] if hasattr(enc, "project_word") else [])
    res.outcome((fam, n, k, tuple(inverses)))
    rm_big = fam == "rm" and k > 12  # nearest-codeword inverse enumerates 2^k codewords: resource limit, see C01
    if rm_big:
        res.undecided += 1
        return
    if fam == "rm" and k >= 8:
        msgs = msgs[:64] + msgs[-64:]
        N = len(msgs)

    def run(layout, x, b, allow_raise=False):
        """encode x, apply each inverse, compare."""
        cfgL = f"{cfg}"
        try:
            y = enc(x)
        except Exception as e:  # noqa: BLE001
            if allow_raise:
                res.rejected += 1
                return
            res.viol(fam, cfgL, "raises", f"encode layout {layout} shape {tuple(x.shape)}: {type(e).__name__}: {e}", {"layout": layout})
            return
        res.transitions += 1
        want = tuple(x.shape[:-1]) + (x.shape[-1] // k * n,)
        if tuple(y.shape) != want:
            res.viol(fam, cfgL, "shape", f"encode layout {layout}: input {tuple(x.shape)} -> {tuple(y.shape)}, expected {want}", {"layout": layout})
            return
        for inv in inverses:
            try:
                out = getattr(enc, inv)(y)
            except Exception as e:  # noqa: BLE001
                if allow_raise:
                    res.rejected += 1
                    continue
                res.viol(fam, cfgL, "raises", f"{inv} layout {layout} shape {tuple(y.shape)}: {type(e).__name__}: {str(e)[:200]}", {"layout": layout, "inverse": inv})
                continue
            res.transitions += 1
            syn = None
            if isinstance(out, tuple):
                out, syn = out[0], (out[1] if len(out) > 1 else None)
            nb = x.numel() // k
            res.ev(nb, nontrivial=nb - max(1, nb // N), transitions=0)
            if tuple(out.shape) != tuple(x.shape):
                res.viol(fam, cfgL, "shape", f"{inv} layout {layout}: codewords {tuple(y.shape)} -> {tuple(out.shape)}, expected {tuple(x.shape)}", {"layout": layout, "inverse": inv})
                continue
            if not torch.equal(out.to(x.dtype), x):
                bad = (out.to(x.dtype) != x).reshape(-1, k).any(dim=1).nonzero().flatten().tolist()
                i = bad[0]
                res.viol(fam, cfgL, "identity", f"{inv} layout {layout}: {len(bad)}/{nb} blocks differ, e.g. block {i}: message {x.reshape(-1, k)[i].tolist()} -> {out.reshape(-1, k)[i].tolist()}", {"layout": layout, "inverse": inv})
            if syn is not None:
                if bool((syn != 0).any()):
                    res.viol(fam, cfgL, "syndrome", f"{inv} layout {layout}: non-zero syndrome for a codeword", {"layout": layout, "inverse": inv})
                if fam not in ("rm", "ldpc") and tuple(syn.shape) != tuple(x.shape[:-1]) + (b * (n - k),):
                    res.viol(fam, cfgL, "syndrome", f"{inv} layout {layout}: syndrome shape {tuple(syn.shape)} expected {tuple(x.shape[:-1]) + (b * (n - k),)}", {"layout": layout, "inverse": inv})

    # 1-D presentations (a few members individually) and a batch of one
    for m in sorted({msgs[0], msgs[1 % N], msgs[N // 2], msgs[-1]}):
        run("1d", torch.tensor(gf2.bits(m, k), dtype=torch.float32), 1)
        run("2d-one", torch.tensor([gf2.bits(m, k)], dtype=torch.float32), 1)
    run("1d-x2", torch.tensor(gf2.bits(msgs[-1], k) + gf2.bits(msgs[1 % N], k), dtype=torch.float32), 2)
    for name, shape, b in _layouts(N, k, tier):
        run(name, _fill(msgs, shape, k), b)
    if tier == "thorough":
        # integer bits: a component may decline the dtype (raise), but must not answer differently
        run("2d-int64", _fill(msgs, (N, k), k).to(torch.int64), 1, allow_raise=True)

    # rejection of last dimensions that are not a multiple of the block size
    for what, size, lens in (("encode", k, [k + 1, 2 * k + 1, 2 * k - 1]), ("inverse_encode", n, [n + 1, 2 * n - 1, n - 1]),
                             ("extract_message", n, [n + 1]), ("project_word", n, [n - 1, n + 1])):
        if what == "project_word" and not hasattr(enc, "project_word"):
            continue
        shapes = []
        for L in lens:
            if L > 0 and L % size:
                shapes += [(L,), (2, L)]
        # last dimensions that do not hold whole blocks although the tensor as a whole does (B rows of d | size elements): still not a layout
        for d in [d_ for d_ in range(1, size) if size % d_ == 0][-4:]:
            B = size // d
            shapes += [(B, d), (B, size + d), (2 * B, d)]
            if B % 2 == 0:
                shapes.append((2, B // 2, d))
        for shape in shapes:
            L = shape[-1]
            if True:
                x = torch.zeros(shape, dtype=torch.float32)
                x[..., 0] = 1
                f = enc if what == "encode" else getattr(enc, what)
                try:
                    out = f(x)
                    out0 = out[0] if isinstance(out, tuple) else out
                    res.viol(fam, cfg, "must-reject", f"{what} accepted last dim {L} (block size {size}) and returned shape {tuple(out0.shape)}", {"what": what, "L": L})
                except Exception:  # noqa: BLE001
                    res.rejected += 1
                res.ev(1, nontrivial=1, transitions=1)
    res.sample({"family": fam, "cfg": cfg, "n": n, "k": k, "messages": N, "inverses": inverses, "layouts": [l[0] for l in _layouts(N, k, tier)]})


# ----------------------------------------------------------------------------- life-cycle equivalence of the components behind this property
# (deep copy / pickle / state_dict / eval-train / cast round trip / no_grad ... leave the behaviour unchanged; shared helper kmc/lifecycle.py)
_cases1, _execute1, _component1 = cases, execute, component_of


def cases(tier, seed):  # noqa: F811
    yield from _cases1(tier, seed)
    yield f"{PID}|lifecycle", {"kind": "lifecycle", "tier": tier}


def execute(p, res):  # noqa: F811
    if p.get("kind") == "lifecycle":
        from kmc import lifecycle
        return lifecycle.run(PID, res)
    return _execute1(p, res)


def component_of(p):  # noqa: F811
    return "lifecycle" if p.get("kind") == "lifecycle" else _component1(p)
