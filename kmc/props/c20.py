"""C20 – per-sample components are pure: batch result == stack of single results, repeatable, input intact (E1 differential + E2)."""
import math
from itertools import product

PID = "C20"
ENGINE = "kmc-E1-space + kmc-E2-bfs"
RULE = ("encoders / decoders (n<=16), memoryless modulators and hard+soft demodulators, per-item constraints; for each a pool of 4-6 members that individually "
        "trigger special paths (zero syndrome, correctable / uncorrectable errors, zero / tiny / large signals, ties); batches of 1..3 (quick) / 4 (thorough) "
        "members in EVERY selection and order, layouts 1-D, (B,n), (B1,B2,n), (B,b*n) b=2,3 (agree with per-block evaluation or raise); EVERY call "
        "sequence of length <= 3 over the pool on one object (repeatability); differential oracle: the member processed alone; a state is one "
        "(component, layout, ordered selection); non-trivial = selection with two different members")
ASSUME = ["GF(2) components compared bit-exactly, float components to 1e-6 relative (1e-5 for iterative soft decoders)"]
HORIZON = {"quick": 300, "thorough": 2400}


def bounds(tier):
    return {"batch_sizes": "1..3" if tier == "quick" else "1..4", "call_sequence_length": 3, "layouts": ["1d", "(B,n)", "(B1,B2,n)", "(B,2n)", "(B,3n)"]}


def components():
    out = []
    for nm in ("hamming74", "hamming-ext", "cyclic7", "bch15_7", "rm13", "spc4", "rep3", "generic2x4", "systematic-list", "ldpc3x6", "polar8_4"):
        out.append(("encoder", nm))
        if nm != "polar8_4":
            out.append(("inverse", nm))
    for nm in ("syndrome-hamming", "bruteforce-hamming", "bm-bch15_7", "reed-rm13", "syndrome-golay-skip", "wagner-spc4", "bp-tree", "minsum-tree", "sc-polar8_4", "polarbp-polar8_4", "polarbp2-polar8_4", "polarbpes-polar8_4", "polarbpesms-polar8_4", "softrm-rm13", "hamming-inverse"):
        if "skip" not in nm:
            out.append(("decoder", nm))
            if nm.split("-")[0] in ("syndrome", "bruteforce", "bm", "reed", "wagner"):
                out.append(("decoder-errors", nm))       # (message, error pattern) returned with return_errors=True
            if nm.split("-")[0] in ("syndrome", "bruteforce", "bm", "reed", "hamming"):
                out.append(("decoder-int32", nm))        # integer-typed words (dtype-dependent code paths, shared tables)
                out.append(("decoder-int64", nm))
    for nm in ("bpsk", "qpsk", "psk8", "qam16", "pam4", "qam64"):
        out.append(("modulator", nm))
        out.append(("demod-hard", nm))
        out.append(("demod-soft", nm))
    for nm in ("pam16-long", "pam64raw-long", "qam16-long", "psk8-long"):
        out.append(("demod-hard", nm))
    for nm in ("total", "average", "papr", "per-antenna"):
        out.append(("constraint", nm))
    for nm in ("total", "average", "papr"):
        for lay in ("2x4", "4x2", "2x2x2", "complex", "complex2x2"):      # members that are themselves multi-dimensional / complex items
            out.append(("constraint", f"{nm}@{lay}"))
    return out


def cases(tier, seed):
    for kind, nm in components():
        yield f"C20|{kind}|{nm}", {"kind": kind, "name": nm, "tier": tier}


def component_of(p):
    return f"{p['kind']}:{p['name']}"


# ----------------------------------------------------------------------------- component construction
def _encoder(nm):
    import torch
    from kaira.models.fec import encoders as E
    if nm == "hamming74":
        return E.HammingCodeEncoder(3)
    if nm == "hamming-ext":
        return E.HammingCodeEncoder(3, extended=True, information_set=[7, 5, 2, 0])
    if nm == "cyclic7":
        return E.CyclicCodeEncoder(7, generator_polynomial=0b1011)
    if nm == "bch15_7":
        return E.BCHCodeEncoder(4, 5)
    if nm == "rm13":
        return E.ReedMullerCodeEncoder(1, 3)
    if nm == "spc4":
        return E.SingleParityCheckCodeEncoder(4)
    if nm == "rep3":
        return E.RepetitionCodeEncoder(3)
    if nm == "generic2x4":
        return E.LinearBlockCodeEncoder(torch.tensor([[1.0, 1, 0, 1], [0, 1, 1, 1]]))
    if nm == "systematic-list":
        return E.SystematicLinearBlockCodeEncoder(torch.tensor([[1.0, 1, 0], [0, 1, 1]]), information_set=[4, 1])
    if nm == "ldpc3x6":
        return E.LDPCCodeEncoder(check_matrix=torch.tensor([[1.0, 1, 0, 1, 0, 0], [0, 1, 1, 0, 1, 0], [1, 0, 1, 0, 0, 1]]))
    if nm == "polar8_4":
        return E.PolarCodeEncoder(4, 8, frozen_zeros=True)
    raise KeyError(nm)


def build(kind, nm):
    """-> (f, pool(list of 1-D tensors), block_len_in, exact, accepts_1d_hint)"""
    import torch
    from kaira.models.fec import decoders as D
    from kaira.models.fec import encoders as E
    f32 = torch.float32
    if kind in ("encoder", "inverse"):
        enc = _encoder(nm)
        k, n = int(enc.code_dimension), int(enc.code_length)
        msgs = [[0] * k, [1] * k, [1] + [0] * (k - 1), [i % 2 for i in range(k)], [0] * (k - 1) + [1], [(i // 2) % 2 for i in range(k)]]
        seen, pool = set(), []
        for m in msgs:
            if tuple(m) not in seen:
                seen.add(tuple(m))
                pool.append(torch.tensor(m, dtype=f32))
        if kind == "encoder":
            return (lambda x: enc(x)), pool, k, True
        cw = [enc(m.unsqueeze(0))[0] for m in pool]
        words = [cw[0], cw[1 % len(cw)], cw[-1].clone()]
        w = cw[2 % len(cw)].clone()
        w[0] = 1 - w[0]
        words.append(w)
        w = cw[-1].clone()
        w[-1] = 1 - w[-1]
        w[0] = 1 - w[0]
        words.append(w)
        return (lambda x: enc.inverse_encode(x)[0]), words, n, True
    if kind in ("decoder", "decoder-errors", "decoder-int32", "decoder-int64"):
        soft = nm.split("-")[0] in ("wagner", "bp", "minsum", "sc", "polarbp", "polarbp2", "polarbpes", "polarbpesms", "softrm")
        if nm.endswith("hamming") or nm == "hamming-inverse":
            enc = E.HammingCodeEncoder(3)
        elif nm.endswith("bch15_7"):
            enc = E.BCHCodeEncoder(4, 5)
        elif nm.endswith("rm13"):
            enc = E.ReedMullerCodeEncoder(1, 3)
        elif nm.endswith("spc4"):
            enc = E.SingleParityCheckCodeEncoder(4)
        elif nm.endswith("tree"):
            enc = E.LDPCCodeEncoder(check_matrix=torch.tensor([[1.0, 1, 0, 1, 0, 0], [0, 1, 1, 0, 1, 0], [0, 0, 0, 1, 1, 1]]))
        else:
            enc = E.PolarCodeEncoder(4, 8, frozen_zeros=True)
        k, n = int(enc.code_dimension), int(enc.code_length)
        head = nm.split("-")[0]
        dec = {"syndrome": lambda: D.SyndromeLookupDecoder(enc), "bruteforce": lambda: D.BruteForceMLDecoder(enc), "bm": lambda: D.BerlekampMasseyDecoder(enc),
               "reed": lambda: D.ReedMullerDecoder(enc), "wagner": lambda: D.WagnerSoftDecisionDecoder(enc), "bp": lambda: D.BeliefPropagationDecoder(enc, bp_iters=8),
               "minsum": lambda: D.MinSumLDPCDecoder(enc, bp_iters=8), "sc": lambda: D.SuccessiveCancellationDecoder(enc), "polarbp": lambda: D.BeliefPropagationPolarDecoder(enc, bp_iters=6), "polarbp2": lambda: D.BeliefPropagationPolarDecoder(enc, bp_iters=2),
               # early stopping retires a word from the working set once its estimate is consistent: which words are still active is batch-wide state
               "polarbpes": lambda: D.BeliefPropagationPolarDecoder(enc, bp_iters=6, early_stop=True), "polarbpesms": lambda: D.BeliefPropagationPolarDecoder(enc, bp_iters=5, early_stop=True, regime="min_sum"),
               "softrm": lambda: D.ReedMullerDecoder(enc, input_type="soft"), "hamming": lambda: None}[head]()
        f = (lambda x: dec(x)) if dec is not None else (lambda x: enc.inverse_encode(x)[0])
        if kind == "decoder" and dec is not None:
            # the same object called with a per-call option in between (the option must not stick to the object)
            if head in ("bp", "minsum"):
                f.alt = ("return_soft=True", lambda x: dec(x, return_soft=True))
            elif head in ("syndrome", "bruteforce", "bm", "reed", "wagner"):
                f.alt = ("return_errors=True", lambda x: dec(x, return_errors=True))
        if kind == "decoder-errors":
            def f(x, dec=dec):
                m, e = dec(x, return_errors=True)
                return torch.cat([m.to(torch.float32), e.to(torch.float32)], dim=-1)
        ms = [torch.tensor(m, dtype=f32) for m in ([0] * k, [1] * k, [1] + [0] * (k - 1), [i % 2 for i in range(k)])]
        cw = [enc(m.unsqueeze(0))[0] for m in ms]
        pool = [cw[0], cw[1]]
        w = cw[2].clone()
        w[1] = 1 - w[1]                                  # one error
        pool.append(w)
        w = cw[3].clone()
        w[0] = 1 - w[0]
        w[n - 1] = 1 - w[n - 1]                          # two errors (beyond t for the single-error correctors)
        pool.append(w)
        w = cw[1].clone()
        w[2] = 1 - w[2]
        w[3] = 1 - w[3]
        w[n - 2] = 1 - w[n - 2]                          # three errors
        pool.append(w)
        if soft:
            mags = [0.7 + 0.31 * i for i in range(n)] if head != "polarbp2" else [40.0 + 7.0 * i for i in range(n)]
            pool = [torch.tensor([(1 - 2 * float(b)) * mags[(i + 3 * j) % n] for i, b in enumerate(wd.tolist())], dtype=f32) for j, wd in enumerate(pool)]
            pool.append(torch.tensor([0.0] * n, dtype=f32))          # all ties
            if kind == "decoder" and head in ("softrm", "wagner", "minsum", "bp", "sc"):
                # members of very different scale (a batch-wide normalisation would let one member decide another's fate) and a tenths-valued
                # word whose weighted votes tie in exact arithmetic but not after a rescaling by a non-power-of-two
                sgn = [1 - 2 * float(b_) for b_ in cw[2].tolist()]
                tenths = [0.4, 0.2, -0.7, 0.1, 0.7, 0.8, 0.7, 0.8, -0.3, 0.6, -0.9, 0.5, 0.2, -0.4, 0.3, 0.1]
                pool += [torch.tensor([s_ * 1e25 for s_ in sgn], dtype=f32), torch.tensor([s_ * 1e-25 for s_ in sgn], dtype=f32), torch.tensor([s_ * 1.3 for s_ in sgn], dtype=f32),
                         torch.tensor(tenths[:n], dtype=f32)]
        if soft and head in ("polarbpes", "polarbpesms"):
            # noisy words (fixed pseudo-random noise of the order of the signal): some converge in the first iterations, some late, some never
            st = 12345
            for j in range(6):
                vals = []
                for i, b_ in enumerate(cw[j % 4].tolist()):
                    st = (st * 1103515245 + 12345) % (1 << 31)
                    u1 = (st / (1 << 31)) * 2 - 1
                    st = (st * 1103515245 + 12345) % (1 << 31)
                    u2 = (st / (1 << 31)) * 2 - 1
                    vals.append((1 - 2 * float(b_)) * 1.0 + 1.1 * (u1 + u2) + 0.013 * (i + 1))
                pool.append(torch.tensor(vals, dtype=f32))
        if kind in ("decoder-int32", "decoder-int64"):
            dt = torch.int32 if kind.endswith("32") else torch.int64
            pool = [w.to(dt) for w in pool]
        return f, pool, n, not soft or head in ("wagner", "sc", "softrm")
    if kind in ("modulator", "demod-hard", "demod-soft"):
        import kaira.modulations as M
        long_members = nm.endswith("-long")
        nm = nm[:-5] if long_members else nm
        mk = {"bpsk": (lambda: M.BPSKModulator(), lambda: M.BPSKDemodulator(), 1), "qpsk": (lambda: M.QPSKModulator(), lambda: M.QPSKDemodulator(), 2),
              "psk8": (lambda: M.PSKModulator(8), lambda: M.PSKDemodulator(8), 3), "qam16": (lambda: M.QAMModulator(16), lambda: M.QAMDemodulator(16), 4),
              "pam4": (lambda: M.PAMModulator(4), lambda: M.PAMDemodulator(4), 2), "pam16": (lambda: M.PAMModulator(16), lambda: M.PAMDemodulator(16), 4),
              "pam64raw": (lambda: M.PAMModulator(64, normalize=False), lambda: M.PAMDemodulator(64, normalize=False), 6), "qam64": (lambda: M.QAMModulator(64), lambda: M.QAMDemodulator(64), 6)}[nm]
        mod, dem, b = mk[0](), mk[1](), mk[2]
        if kind == "demod-hard" and long_members:
            # members of 1400 symbols (so that a few members together cross internal size thresholds such as 65536 / order) made of constellation
            # points, EXACT midpoints between neighbouring levels (ties) and slightly displaced points, in a fixed pseudo-random order
            pts_ = [complex(c) for c in mod.constellation.tolist()]
            srt = sorted(pts_, key=lambda c: (c.real, c.imag))
            mids = [(srt[i] + srt[i + 1]) / 2 for i in range(len(srt) - 1)]
            cand = pts_ + mids + [c * 1.07 + 0.013 for c in pts_] + [0j]
            g_ = torch.Generator().manual_seed(4711)
            pool = [torch.tensor([cand[int(j)] for j in torch.randint(0, len(cand), (1400,), generator=g_).tolist()], dtype=torch.complex64) for _ in range(4)]
            fh = lambda y: dem(y)  # noqa: E731
            return fh, pool, 1400, False
        if kind == "modulator":
            L = 2 * b
            pats = [[0] * L, [1] * L, [i % 2 for i in range(L)], [1] + [0] * (L - 1), [(i // 2) % 2 for i in range(L)]]
            return (lambda x: mod(x)), [torch.tensor(p, dtype=f32) for p in pats], L, False
        pts = [complex(c) for c in mod.constellation.tolist()]
        mid = (pts[0] + pts[1]) / 2
        seqs = [[pts[0], pts[-1], pts[1]], [pts[1] * 1.1 + 0.03, pts[2 % len(pts)] - 0.02j, pts[0]], [mid, mid, pts[-1]], [pts[0] * 9, -pts[0] * 9, 0j], [0.01 + 0.02j, pts[-1] * 0.5, pts[1] + 0.3]]
        pool = [torch.tensor(s, dtype=torch.complex64) for s in seqs]
        if kind == "demod-hard":
            fh = lambda y: dem(y)  # noqa: E731
            fh.alt = ("noise_var=0.5", lambda y: dem(y, 0.5))
            return fh, pool, 3, False
        fs = lambda y: dem(y, 0.5)  # noqa: E731
        fs.alt = ("noise_var=2.0", lambda y: dem(y, 2.0))
        return fs, pool, 3, False
    if kind == "constraint":
        import kaira.constraints as KC
        nm, _, lay = nm.partition("@")
        con = {"total": lambda: KC.TotalPowerConstraint(2.0), "average": lambda: KC.AveragePowerConstraint(0.5), "papr": lambda: KC.PAPRConstraint(2.0),
               "per-antenna": lambda: KC.PerAntennaPowerConstraint(uniform_power=1.5)}[nm]()
        base = [[0.0] * 8, [1e-4 * ((-1) ** i) for i in range(8)], [1e3 * (1 + i) for i in range(8)], [1.0, -2.0, 0.5, 3.0, -1.0, 0.25, 2.0, -0.5], [9.0] + [0.1] * 7]
        if nm == "papr" and not lay:
            # members whose own PAPR hugs the limit from both sides (one peak among seven ones): 0.97, 0.985, 0.995, 1.005, 1.02 x limit
            base = base[:2] + [[math.sqrt(7 * r * 2.0 / (8 - r * 2.0))] + [1.0 if i % 2 else -1.0 for i in range(7)] for r in (0.97, 0.985, 0.995, 1.005, 1.02)]
        if nm in ("total", "average") and not lay:
            base = base + [[3e-6 * ((-1) ** i) for i in range(8)], [4e-6] + [0.0] * 7]          # on both sides of the zero-signal threshold (power 1e-10)
        if nm == "per-antenna":
            pool = [torch.tensor(bv, dtype=f32).reshape(2, 4) for bv in base[1:]]       # (antennas, time)
        elif lay in ("2x4", "4x2", "2x2x2"):
            pool = [torch.tensor(bv, dtype=f32).reshape(*[int(t) for t in lay.split("x")]) for bv in base]
        elif lay.startswith("complex"):
            pool = [torch.complex(torch.tensor(bv[0::2], dtype=f32), torch.tensor(bv[1::2], dtype=f32)) for bv in base]
            if lay == "complex2x2":
                pool = [t.reshape(2, 2) for t in pool]
        else:
            pool = [torch.tensor(bv, dtype=f32) for bv in base]
        return (lambda x: con(x)), pool, 8, False
    raise KeyError(kind)


def same(a, b, exact, tol=1e-6):
    import torch
    if a.shape != b.shape:
        return False
    if exact:
        return torch.equal(a.to(torch.float64) if not a.is_complex() else a, b.to(torch.float64) if not b.is_complex() else b)
    d = (a.to(torch.complex128) - b.to(torch.complex128)).abs()
    fin = torch.isfinite(d)
    if not bool(fin.all()):
        return bool((torch.isfinite(a.abs()) == torch.isfinite(b.abs())).all()) and bool((d[fin] <= tol * (1 + b.abs()[fin].to(torch.float64))).all())
    return bool((d <= tol * (1 + b.abs().to(torch.float64))).all())


def execute(p, res):
    import torch
    kind, nm = p["kind"], p["name"]
    comp = f"{kind}:{nm}"
    f, pool, nin, exact = build(kind, nm)
    tol = 1e-5 if (kind.startswith("decoder") or kind == "constraint") else 1e-6
    is_2d_member = pool[0].dim() >= 2
    v = lambda layout, clause, d, foc=None: res.viol(comp, layout, clause, d, foc)  # noqa: E731

    def call(x):
        x0 = x.clone()
        y = f(x)
        if not torch.equal(x, x0) and not (torch.isnan(x0).any()):
            v("any", "input-intact", f"input tensor of shape {tuple(x.shape)} was modified by the call")
        res.transitions += 1
        return y
    # reference: each member alone as a batch of one
    ref = []
    for i, m in enumerate(pool):
        try:
            r = call(m.unsqueeze(0))
            ref.append(r[0])
        except Exception as e:  # noqa: BLE001
            if kind in ("decoder-int32", "decoder-int64"):
                res.rejected += 1          # the component declines integer words altogether: allowed
                return
            v("B=1", "raises", f"member {i} alone as a batch of one: {type(e).__name__}: {str(e)[:160]}")
            return
    # 1-D presentation: agree or raise
    if not is_2d_member:
        for i, m in enumerate(pool):
            try:
                r = call(m)
                res.ev(1, nontrivial=0, transitions=0)
                if not same(r, ref[i], exact, tol):
                    v("1d", "layout-agree-or-raise", f"member {i} ({m.tolist()[:8]}) as 1-D -> {r.tolist()[:8]} but as a batch of one -> {ref[i].tolist()[:8]}", {"member": i})
            except Exception:  # noqa: BLE001
                res.rejected += 1
    # rows that are proper fractions of a block although the tensor as a whole holds whole blocks: (2, n/2), (4, n/4), (n, 1) - there is no
    # per-block evaluation such a layout could agree with, so it must be declined
    if not is_2d_member and kind in ("encoder", "inverse", "decoder", "decoder-errors", "decoder-int32", "decoder-int64"):
        for parts in (2, 4, nin):
            if nin % parts or parts < 2 or nin // parts < 1 or (parts == nin and nin == 1):
                continue
            for src in ([pool[1], pool[min(2, len(pool) - 1)]] if parts != nin else [pool[1]]):
                Xf = torch.stack([src, pool[0]]).reshape(2 * parts, nin // parts)
                try:
                    r = call(Xf)
                except Exception:  # noqa: BLE001
                    res.rejected += 1
                    continue
                res.ev(1, nontrivial=1, transitions=0)
                v(f"({2 * parts},{nin // parts})", "layout-agree-or-raise", f"two blocks of length {nin} presented as {2 * parts} rows of {nin // parts} were answered with a tensor of shape {tuple(r.shape) if hasattr(r, 'shape') else type(r).__name__} instead of an error")
                break
    # every ordered selection of 1..Bmax members
    Bmax = 3 if p["tier"] == "quick" else 4
    for B in range(1, Bmax + 1):
        for sel in product(range(len(pool)), repeat=B):
            X = torch.stack([pool[i] for i in sel])
            try:
                Y = call(X)
            except Exception as e:  # noqa: BLE001
                v(f"B={B}", "raises", f"batch of members {sel}: {type(e).__name__}: {str(e)[:160]}", {"sel": list(sel)})
                break
            res.ev(1, nontrivial=1 if len(set(sel)) > 1 else 0, transitions=0)
            if Y.shape[0] != B:
                v(f"B={B}", "batch=stack", f"batch of {B} members returned leading dimension {tuple(Y.shape)}")
                break
            bad = [j for j, i in enumerate(sel) if not same(Y[j], ref[i], exact, tol)]
            if bad:
                j = bad[0]
                v(f"B={B}", "batch=stack" if len(set(sel)) > 1 else "position-independent",
                  f"members {sel}: row {j} (member {sel[j]}) -> {Y[j].reshape(-1).tolist()[:8]} but alone -> {ref[sel[j]].reshape(-1).tolist()[:8]}", {"sel": list(sel)})
                break
        else:
            continue
        break
    # one BIG batch (a prime number of rows cycling through the pool in a fixed irregular order): implementations that work in chunks must treat
    # the last, shorter chunk like the others
    BIG = 1031 if p["tier"] == "quick" else 4099
    sel_big = [(7 * i + i // 3) % len(pool) for i in range(BIG)]
    try:
        Yb = call(torch.stack([pool[i] for i in sel_big]))
        res.ev(BIG, nontrivial=BIG, transitions=0)
        if Yb.shape[0] != BIG:
            v(f"B={BIG}", "batch=stack", f"batch of {BIG} members returned leading dimension {tuple(Yb.shape)}")
        else:
            badb = [j for j, i in enumerate(sel_big) if not same(Yb[j], ref[i], exact, tol)]
            if badb:
                j = badb[0]
                v(f"B={BIG}", "batch=stack", f"row {j} of a batch of {BIG} (member {sel_big[j]}) -> {Yb[j].reshape(-1).tolist()[:8]} but alone -> {ref[sel_big[j]].reshape(-1).tolist()[:8]} ({len(badb)} rows differ)", {"row": j})
    except Exception as e:  # noqa: BLE001
        v(f"B={BIG}", "raises", f"batch of {BIG} members: {type(e).__name__}: {str(e)[:160]}")
    # the same batches presented as non-contiguous views (transposed storage, strided slice of a wider tensor, stride-0 expansion of one member):
    # values are a function of the logical content only
    if not is_2d_member:
        views = 0
        for sel in list(product(range(len(pool)), repeat=2)) + [(i, (i + 1) % len(pool), (i + 2) % len(pool)) for i in range(len(pool))]:
            Xc = torch.stack([pool[i] for i in sel])
            wide = torch.stack([Xc, torch.flip(Xc, [0, 1])], dim=2).reshape(len(sel), -1)
            forms = {"transposed": Xc.t().contiguous().t(), "strided": wide[:, ::2]}
            if len(set(sel)) == 1:
                forms["expanded"] = pool[sel[0]].unsqueeze(0).expand(len(sel), -1)
            for vname, Xv in forms.items():
                assert torch.equal(Xv, Xc) and (not Xv.is_contiguous() or Xv.shape[1] == 1), vname
                try:
                    Y = call(Xv)
                except Exception:  # noqa: BLE001
                    res.rejected += 1          # declining a memory layout is allowed; answering it with other values is not
                    continue
                views += 1
                res.ev(1, nontrivial=1, transitions=0)
                if Y.shape[0] != len(sel) or any(not same(Y[j], ref[i], exact, tol) for j, i in enumerate(sel)):
                    v(vname, "batch=stack", f"members {sel} as a {vname} view (strides {tuple(Xv.stride())}): output differs from the members processed alone", {"sel": list(sel)})
                    break
        res.bump("view_presentations", views)
    # (B1,B2,n): agree or raise (constraints are excluded: their item is everything behind the first dimension by definition); every
    # B1 in 1..3 x B2 in {1,2,3,4,8,16} (sizes that coincide with internal table sizes such as 2^k are where accidental broadcasting hides)
    if not is_2d_member and kind != "constraint":
        stop = False
        for B1, B2 in product((1, 2, 3), (1, 2, 3, 4, 8, 16)):
            if stop:
                break
            for off in (0, 1):
                sel = [(off + 3 * j + j // 2) % len(pool) for j in range(B1 * B2)]
                X = torch.stack([pool[i] for i in sel]).reshape(B1, B2, -1)
                try:
                    Y = call(X)
                except Exception:  # noqa: BLE001
                    res.rejected += 1
                    continue
                res.ev(1, nontrivial=1, transitions=0)
                Yf = Y.reshape(B1 * B2, -1) if Y.numel() == B1 * B2 * ref[0].numel() else None
                if Yf is None or tuple(Y.shape[:2]) != (B1, B2) or any(not same(Yf[j], ref[i].reshape(-1), exact, tol) for j, i in enumerate(sel)):
                    v("B1xB2", "layout-agree-or-raise", f"members {sel} as a ({B1},{B2},n) tensor: output {tuple(Y.shape)} differs from the members processed alone", {"sel": list(sel), "B1": B1, "B2": B2})
                    stop = True
                    break
    # (B, b*n) several blocks per row: agree with per-block evaluation or raise (block codes / modems concatenate along the last dim)
    if not is_2d_member:
        if kind in ("encoder", "inverse", "decoder", "decoder-int32", "decoder-int64", "modulator", "demod-hard", "demod-soft"):   # (not decoder-errors: two concatenated outputs)
            for b in (2, 3):
                for sel in list(product(range(len(pool)), repeat=b))[::3]:
                    X = torch.cat([pool[i] for i in sel]).unsqueeze(0)
                    try:
                        Y = call(X)
                    except Exception:  # noqa: BLE001
                        res.rejected += 1
                        continue
                    res.ev(1, nontrivial=1, transitions=0)
                    want = torch.cat([ref[i].reshape(-1) for i in sel])
                    if Y.numel() != want.numel() or not same(Y.reshape(-1), want, exact, tol):
                        v(f"Bx{b}n", "layout-agree-or-raise", f"members {sel} concatenated along the last dimension: output {tuple(Y.shape)} {Y.reshape(-1).tolist()[:10]} differs from per-block evaluation {want.tolist()[:10]}", {"sel": list(sel)})
                        break
    # E2: every call sequence of length <= 3 over the pool on this one object: each call must repeat the member's reference result
    for seq in product(range(len(pool)), repeat=3):
        kept = []
        for i in seq:
            try:
                r = call(pool[i].unsqueeze(0))[0]
            except Exception as e:  # noqa: BLE001
                v("sequence", "raises", f"call sequence {seq}: {type(e).__name__}: {str(e)[:160]}")
                break
            if not same(r, ref[i], exact, tol):
                v("sequence", "repeatable", f"call sequence {seq}: member {i} now -> {r.reshape(-1).tolist()[:8]}, first time -> {ref[i].reshape(-1).tolist()[:8]}", {"seq": list(seq)})
                break
            kept.append((i, r))
        else:
            # results are values: what the first calls returned still reads the same after the later calls (no work buffer handed out twice)
            stale = [i for i, r in kept if not same(r, ref[i], exact, tol)]
            if stale:
                v("sequence", "repeatable", f"call sequence {seq}: the result returned for member {stale[0]} changed after later calls on the same object", {"seq": list(seq)})
        res.ev(1, nontrivial=1 if len(set(seq)) > 1 else 0, transitions=0)
    # E2 with per-call options: every sequence of length 3 over {plain call, call with the option} x 3 members on this one object; a plain call
    # answers as the first plain call did, an optioned call as the first optioned call did (fresh-object references for both)
    if hasattr(f, "alt"):
        oname, g = f.alt

        def flat(r):
            parts = r if isinstance(r, (tuple, list)) else [r]
            return ("tuple" if isinstance(r, (tuple, list)) else "tensor", len(parts), torch.cat([p_.to(torch.complex128 if p_.is_complex() else torch.float64).reshape(-1) for p_ in parts]))
        f2, _, _, _ = build(kind, nm)          # a fresh object for the optioned references
        try:
            ref_alt = [flat(f2.alt[1](m.unsqueeze(0))) for m in pool[:3]]
        except Exception as e:  # noqa: BLE001
            ref_alt = None
            res.rejected += 1
        if ref_alt is not None:
            ref_plain = [flat(call(m.unsqueeze(0))) for m in pool[:3]]
            bad = False
            for seq in product([(0, i) for i in range(3)] + [(1, i) for i in range(3)], repeat=3):
                if bad:
                    break
                if len({v_ for v_, _ in seq}) == 1 and seq[0][0] == 0:
                    continue           # plain-only sequences were run above
                for pos, (var, i) in enumerate(seq):
                    try:
                        r = flat((g if var else f)(pool[i].unsqueeze(0)))
                    except Exception as e:  # noqa: BLE001
                        v("options", "raises", f"call sequence {seq} (1 = with {oname}): {type(e).__name__}: {str(e)[:160]}")
                        bad = True
                        break
                    want = (ref_alt if var else ref_plain)[i]
                    if r[:2] != want[:2] or r[2].shape != want[2].shape or not same(r[2], want[2], exact, tol):
                        v("options", "repeatable", f"call sequence {[('with ' + oname if v_ else 'plain', i_) for v_, i_ in seq]}: call {pos} returned a {r[0]} of {r[1]} part(s) {r[2].tolist()[:8]}, "
                          f"a fresh object returns a {want[0]} of {want[1]} part(s) {want[2].tolist()[:8]}", {"seq": [list(t_) for t_ in seq]})
                        bad = True
                        break
                res.ev(1, nontrivial=1, transitions=3)
    res.outcome((comp, len(pool)))
    res.sample({"component": comp, "pool": len(pool), "member_shape": list(pool[0].shape)})


# ----------------------------------------------------------------------------- life-cycle equivalence of the components behind this property
# (deep copy / pickle / state_dict / eval-train / cast round trip / no_grad ... leave the behaviour unchanged; shared helper kmc/lifecycle.py)
_cases1, _execute1, _component1 = cases, execute, component_of


def cases(tier, seed):  # noqa: F811
    yield from _cases1(tier, seed)
    yield f"{PID}|lifecycle", {"kind": "lifecycle", "tier": tier}


def execute(p, res):  # noqa: F811
    if p.get("kind") == "lifecycle":
        from kmc import lifecycle
        return lifecycle.run(PID, res)
    return _execute1(p, res)


def component_of(p):  # noqa: F811
    return "lifecycle" if p.get("kind") == "lifecycle" else _component1(p)
