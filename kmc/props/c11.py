"""C11 – polar encoding is the Arikan transform on the 5G information set; SC / BP decoders invert it (E1)."""
import hashlib
from itertools import product

from kmc.ref import polar as PR

PID = "C11"
ENGINE = "kmc-E1-space"
RULE = ("N in {2..16} x all k (quick; + N=32 all k, N=64..1024 x 7 structured k thorough) x frozen value x interleaving x ranking / every "
        "user mask (N<=8) ; all 2^k messages (k<=10) else weight<=2 + complements; batch sizes 1..8; decoders on noise-free LLRs at four "
        "magnitudes; SC on every LLR vector over {+-0.731,+-1.913}^N (N<=8) and {+-0.731}^16 against a textbook SC reference; a state is one "
        "(configuration, message or LLR vector); non-trivial = non-zero message / non-constant-sign vector")
ASSUME = ["textbook reference kmc/ref/polar.py", "5G ranking content pinned by SHA-256 and the first 32 entries of TS 38.212 Table 5.3.1.2-1",
          "the information set of an encoder built from a user-supplied mask is the mask's content at construction time (the caller may reuse its buffer afterwards; the library copies the mask)"]
HORIZON = {"quick": 300, "thorough": 3600}
RANK_SHA = "fbd7522273e81607ccc6eeaf2feb768ba13d4a14c46cf19bf1275e0714cee3f1"
MAGS = [0.5, 2.0, 10.0, 100.0]


def bounds(tier):
    q = tier == "quick"
    return {"N_all_k": [2, 4, 8, 16] if q else [2, 4, 8, 16, 32], "N_structured_k": [] if q else [64, 128, 256, 512, 1024],
            "all_masks_N": [2, 4, 8], "sc_arbitrary_llr": "4^N for N<=8, 2^16 for N=16"}


def _ks(N, tier):
    if N <= (16 if tier == "quick" else 32):
        return list(range(1, N))
    return sorted({1, 2, N // 4, N // 2, 3 * N // 4, N - 2, N - 1})


def cases(tier, seed):
    q = tier == "quick"
    yield "C11|rank-table", {"kind": "rank"}
    Ns = [2, 4, 8, 16] if q else [2, 4, 8, 16, 32, 64, 128, 256, 512, 1024]
    for N in Ns:
        for fz in (True, False):
            for pi in (False, True):
                ks = _ks(N, tier)
                step = 4 if N >= 16 else len(ks)
                for i in range(0, len(ks), step):
                    yield f"C11|enc|N={N},fz={int(fz)},pi={int(pi)},k={ks[i]}..", {"kind": "enc", "N": N, "ks": ks[i:i + step], "fz": fz, "pi": pi, "tier": tier}
    if q:
        # every combination of the two encoder flags at the longer lengths as well (three dimensions each): the transform is checked against the
        # reference and, for SC, the clean round trip
        for N in (32, 64, 128, 256):
            for fz in (True, False):
                for pi in (False, True):
                    ks3 = [N // 4 + 1, N // 2 + 13, N - 3]
                    yield f"C11|enc|N={N},fz={int(fz)},pi={int(pi)},k={ks3[0]}..", {"kind": "enc", "N": N, "ks": ks3, "fz": fz, "pi": pi, "tier": tier}
                    if N <= 128:
                        yield f"C11|sc|N={N},sum_product,fz={int(fz)},pi={int(pi)},k={ks3[1]}", {"kind": "sc", "N": N, "ks": ks3[1:2], "fz": fz, "pi": pi, "regime": "sum_product", "tier": tier}
    for N in (2, 4, 8):
        for fz in (True, False):
            yield f"C11|mask|N={N},fz={int(fz)}", {"kind": "mask", "N": N, "fz": fz, "tier": tier}
    for N in ((16,) if q else (16, 32, 64)):
        yield f"C11|mask|N={N},structured", {"kind": "mask", "N": N, "fz": True, "tier": tier}
    for N in Ns:
        if N > (16 if q else 64):
            continue
        for regime in ("sum_product", "min_sum"):
            for fz in (True, False):
                for pi in (False, True):
                    ks = _ks(N, tier)
                    step = 3 if N >= 16 else len(ks)
                    for i in range(0, len(ks), step):
                        yield f"C11|sc|N={N},{regime},fz={int(fz)},pi={int(pi)},k={ks[i]}..", {"kind": "sc", "N": N, "ks": ks[i:i + step], "fz": fz, "pi": pi, "regime": regime, "tier": tier}
                if N <= 32:
                    ks = _ks(N, tier)
                    step = 3 if N >= 16 else len(ks)
                    for i in range(0, len(ks), step):
                        yield f"C11|bp|N={N},{regime},fz={int(fz)},k={ks[i]}..", {"kind": "bp", "N": N, "ks": ks[i:i + step], "fz": fz, "regime": regime, "tier": tier}
    if q:
        # high-rate codes of longer length: long check-node chains drive the message LLRs of the BP decoder towards 0 (cheap, clean clause only)
        for N in (32, 64):
            for regime in ("sum_product", "min_sum"):
                for fz in (True, False):
                    yield f"C11|bp|N={N},{regime},fz={int(fz)},high-rate", {"kind": "bp", "N": N, "ks": [N - 1, N - 2, N // 2], "fz": fz, "regime": regime, "tier": tier}
                    yield f"C11|sc|N={N},{regime},fz={int(fz)},pi=0,high-rate", {"kind": "sc", "N": N, "ks": [N - 1, N - 2, N // 2], "fz": fz, "pi": False, "regime": regime, "tier": tier}
    # long, very low-rate codes on arbitrary (non-codeword) LLRs: partial sums grow to several thousand there
    for N in (256, 512, 1024):
        yield f"C11|sc-rule-long|N={N}", {"kind": "sc-rule-long", "N": N, "tier": tier}
    # the encoder's `dtype` option (bit dtype of messages / codewords); decoders built on such an encoder still take real-valued LLRs
    for dt in ("float64", "float16", "int64", "int32", "uint8"):
        for N in (8, 16):
            yield f"C11|dtype|{dt},N={N}", {"kind": "dtype", "dtype": dt, "N": N, "tier": tier}
    for N in (2, 4, 8, 16):
        for regime in ("sum_product", "min_sum"):
            for pi in (False, True):
                nb = 1 if N < 8 else (8 if N == 8 else 16)
                for blk in range(nb):
                    yield f"C11|sc-rule|N={N},{regime},pi={int(pi)},block{blk:02d}", {"kind": "sc-rule", "N": N, "regime": regime, "pi": pi, "blk": blk, "nb": nb, "tier": tier}


def cost(p):
    """scheduling hint: long codes first"""
    return p.get("N", 0) * len(p.get("ks", [1]))


def component_of(p):
    return {"rank": "encoder", "enc": "encoder", "mask": "encoder", "sc": "sc", "bp": "polar-bp", "sc-rule": "sc", "sc-rule-long": "sc", "dtype": "encoder"}[p["kind"]]


def _Q():
    import os
    import kaira.models.fec as F
    path = os.path.join(os.path.dirname(F.__file__), "rank_polar.csv")
    lines = open(path).read().splitlines()[1:]
    return [int(l.split()[1]) for l in lines]


def _enc(k, N, **kw):
    from kaira.models.fec.encoders import PolarCodeEncoder
    return PolarCodeEncoder(k, N, **kw)


def _msgs(k):
    if k <= 10:
        return [list(m) for m in product([0, 1], repeat=k)]
    s = [[0] * k, [1] * k]
    for i in range(k):
        e = [0] * k
        e[i] = 1
        s.append(e)
        s.append([1 - b for b in e])
        for j in (range(i) if k <= 48 else sorted({i - 1, 0, i // 2} - {i, -1})):     # all pairs for short messages, three partners each above
            e2 = list(e)
            e2[j] = 1
            s.append(e2)
    return s


def execute(p, res):
    {"rank": rank_case, "enc": enc_case, "mask": mask_case, "sc": sc_case, "bp": bp_case, "sc-rule": sc_rule_case, "sc-rule-long": sc_rule_long_case, "dtype": dtype_case}[p["kind"]](p, res)


def rank_case(p, res):
    Q = _Q()
    res.ev(len(Q), transitions=1)
    v = lambda clause, d: res.viol("encoder", "rank_polar.csv", clause, d)  # noqa: E731
    if sorted(Q) != list(range(1024)):
        v("info-set", "ranking is not a permutation of 0..1023")
        return
    pos = {q: i for i, q in enumerate(Q)}
    bad = [(i, j) for j in range(1024) for b in range(10) if (j >> b) & 1 for i in [j & ~(1 << b)] if pos[i] > pos[j]]
    if bad:
        v("info-set", f"ranking violates binary domination: {bad[0][0]} (subset of {bad[0][1]}) is ranked more reliable")
    if Q[:32] != PR.TS38212_FIRST32:
        v("info-set", f"first 32 entries differ from TS 38.212 Table 5.3.1.2-1: {Q[:32]}")
    h = hashlib.sha256(",".join(map(str, Q)).encode()).hexdigest()
    if h != RANK_SHA:
        v("info-set", f"content hash of the ranking changed: {h}")
    res.sample({"ranking_sha256": h})


def check_encoder(enc, N, k, info_ref, fz, pi, cfg, res, msgs):
    import torch
    v = lambda clause, d, f=None: res.viol("encoder", cfg, clause, d, f)  # noqa: E731
    m = N.bit_length() - 1
    info = enc.info_indices
    got = [i for i, b in enumerate(info.tolist()) if b]
    if len(got) != k or got != info_ref or info.dtype != torch.bool:
        v("info-set", f"info_indices {got} but the reference information set is {info_ref}")
        return False
    G = enc.get_generator_matrix()
    if G.tolist() != [[float(x) for x in PR.kron_row(j, N)] for j in range(N)]:
        v("generator", "get_generator_matrix() is not the m-fold Kronecker power of [[1,0],[1,1]]")
    frozen = 0 if fz else 1
    off = 0
    bs_cycle = [1, 2, 3, 4, 5, 6, 7, 8]
    bi = 0
    nbad = 0
    while off < len(msgs):
        B = bs_cycle[bi % 8] if len(msgs) - off < 64 or bi < 8 else 64
        bi += 1
        chunk = msgs[off:off + B]
        off += B
        x = torch.tensor(chunk, dtype=torch.float32)
        try:
            y = enc(x)
        except Exception as e:  # noqa: BLE001
            v("raises", f"encode batch of {len(chunk)}: {type(e).__name__}: {str(e)[:200]}")
            return False
        res.ev(len(chunk), nontrivial=sum(1 for c in chunk if any(c)), transitions=1)
        if tuple(y.shape) != (len(chunk), N):
            v("transform", f"output shape {tuple(y.shape)} for batch {len(chunk)}")
            return False
        for msg, row in zip(chunk, y.tolist()):
            u = [frozen] * N
            for pos_, b in zip(info_ref, msg):
                u[pos_] = b
            xr = PR.transform_fast(u)
            if pi:
                xr = [xr[PR.bitrev(i, m)] for i in range(N)]
            if [int(t) for t in row] != xr or any(t not in (0.0, 1.0) for t in row):
                nbad += 1
                if nbad == 1:
                    clause = "frozen" if not any(msg) and [int(t) for t in row] != xr else "transform"
                    v(clause, f"message {msg}: codeword {[int(t) for t in row]} but u.F^(x){m}{' (bit-reversed)' if pi else ''} = {xr} with u = message on {info_ref}, frozen value {frozen}", {"msg": msg})
    return nbad == 0


def enc_case(p, res):
    N, fz, pi = p["N"], p["fz"], p["pi"]
    Q = _Q()
    for k in p["ks"]:
        cfg = f"N={N},k={k},fz={int(fz)},pi={int(pi)},rank"
        try:
            enc = _enc(k, N, frozen_zeros=fz, polar_i=pi, load_rank=True)
        except Exception as e:  # noqa: BLE001
            res.viol("encoder", cfg, "raises", f"constructor: {type(e).__name__}: {e}")
            continue
        check_encoder(enc, N, k, PR.info_set_from_ranking(Q, N, k), fz, pi, cfg, res, _msgs(k))
        res.outcome((N, k))
    res.sample({"N": N, "ks": p["ks"], "frozen_zeros": fz, "polar_i": pi})


def dtype_case(p, res):
    """PolarCodeEncoder(..., dtype=d): messages and codewords carry dtype d, the transform is the same; SC / BP decoders built on that encoder
    decode real-valued LLRs exactly as decoders built on the default encoder do (clean words at every magnitude, and a fixed set of noisy words)"""
    import torch
    from kaira.models.fec.decoders import BeliefPropagationPolarDecoder, SuccessiveCancellationDecoder
    dt = getattr(torch, p["dtype"])
    N = p["N"]
    Q = _Q()
    ks = list(range(1, N)) if N == 8 else [1, 5, 8, 11, 14, 15]
    for k in ks:
        for fz in (True, False):
            cfg = f"N={N},k={k},fz={int(fz)},dtype={p['dtype']}"
            v = lambda comp, clause, d, f=None: res.viol(comp, cfg, clause, d, f)  # noqa: E731
            try:
                enc = _enc(k, N, frozen_zeros=fz, load_rank=True, dtype=dt)
            except Exception:  # noqa: BLE001
                res.rejected += 1           # declining a dtype is allowed
                continue
            enc0 = _enc(k, N, frozen_zeros=fz, load_rank=True)
            msgs = _msgs(k)
            if len(msgs) > 256:
                msgs = msgs[:128] + msgs[-128:]
            x0 = torch.tensor(msgs, dtype=torch.float32)
            cw0 = enc0(x0)
            try:
                cw = enc(x0.to(dt))
                res.ev(len(msgs), nontrivial=len(msgs) - 1, transitions=1)
                if tuple(cw.shape) != tuple(cw0.shape) or not torch.equal(cw.to(torch.float32), cw0):
                    i = int((cw.to(torch.float32) != cw0).any(dim=1).nonzero()[0]) if tuple(cw.shape) == tuple(cw0.shape) else 0
                    v("encoder", "transform", f"message {msgs[i]} given as {p['dtype']}: codeword {cw[i].tolist() if cw.dim() == 2 else tuple(cw.shape)} but the default encoder gives {cw0[i].tolist()}", {"msg": msgs[i]})
            except Exception:  # noqa: BLE001
                res.rejected += 1
            noisy = torch.tensor([[((-1) ** ((i * 7 + j * 3) % 5 == 0)) * (0.3 + 0.37 * ((i * 5 + j) % 7)) for j in range(N)] for i in range(24)], dtype=torch.float32)
            for comp, mk in (("sc", lambda e, r: SuccessiveCancellationDecoder(e, regime=r)), ("polar-bp", lambda e, r: BeliefPropagationPolarDecoder(e, bp_iters=6, regime=r))):
                for regime in ("sum_product", "min_sum"):
                    try:
                        dec, dec0 = mk(enc, regime), mk(enc0, regime)
                    except Exception:  # noqa: BLE001
                        res.rejected += 1
                        continue
                    for mag in MAGS:
                        llr = (1 - 2 * cw0) * mag
                        for name, L, want in (("clean", llr, x0), ("noisy", noisy, None)):
                            if name == "noisy" and mag != MAGS[0]:
                                continue
                            try:
                                y = dec(L)
                            except Exception as e:  # noqa: BLE001
                                v(comp, "raises", f"{regime}, {name} LLRs magnitude {mag}: {type(e).__name__}: {str(e)[:160]}")
                                break
                            y0 = dec0(L)
                            res.ev(L.shape[0], nontrivial=L.shape[0], transitions=2)
                            ref = want if want is not None else y0.to(torch.float32)
                            if tuple(y.shape) != tuple(ref.shape) or not torch.equal(y.to(torch.float32), ref):
                                i = int((y.to(torch.float32) != ref).any(dim=1).nonzero()[0]) if tuple(y.shape) == tuple(ref.shape) else 0
                                v(comp, "clean" if name == "clean" else "dtype-independent", f"{regime}: {name} LLRs {[round(t_, 3) for t_ in L[i].tolist()]} decoded to {y[i].tolist()} on the {p['dtype']} encoder, "
                                  f"{'message ' + str(x0[i].tolist()) if want is not None else 'the default encoder gives ' + str(y0[i].tolist())}", {"regime": regime, "mag": mag})
                                break
    res.sample({"dtype": p["dtype"], "N": N, "ks": ks})


def mask_case(p, res):
    N, fz = p["N"], p["fz"]
    if N <= 8:
        masks = [mk for mk in range(1, (1 << N) - 1)]
    else:
        masks = sorted({(1 << (N // 2)) - 1, ((1 << (N // 2)) - 1) << (N // 2), int("01" * (N // 2), 2), int("10" * (N // 2), 2), 1, 1 << (N - 1),
                        (1 << N) - 2, (1 << (N - 1)) - 1, 0b1011 << (N // 2), (1 << N) - 1 - (1 << (N // 2)), int("0011" * (N // 4), 2),
                        int("1100" * (N // 4), 2), 0b111, 0b101 << (N - 3), (1 << (N // 4)) - 1, int("0001" * (N // 4), 2)})
    for mk in masks:
        info_ref = [i for i in range(N) if (mk >> i) & 1]
        k = len(info_ref)
        for pi in (False, True):
            for form in ("list", "tensor"):
                cfg = f"N={N},mask={mk:#x},fz={int(fz)},pi={int(pi)},{form}"
                import torch
                mask_list = [bool((mk >> i) & 1) for i in range(N)]
                arg = mask_list if form == "list" else torch.tensor(mask_list)
                try:
                    enc = _enc(k, N, frozen_zeros=fz, polar_i=pi, load_rank=False, info_indices=arg)
                except Exception as e:  # noqa: BLE001
                    res.viol("encoder", cfg, "raises", f"constructor: {type(e).__name__}: {e}")
                    continue
                msgs = _msgs(k)
                if len(msgs) > 64:
                    msgs = msgs[:32] + msgs[-32:]
                # the caller's mask object is the caller's: overwriting it after construction (a sweep that refills one scratch buffer) must not
                # change the encoder that was built from it
                if form == "tensor":
                    arg.logical_not_()
                else:
                    arg[:] = [not b_ for b_ in arg]
                ok_enc = check_encoder(enc, N, k, info_ref, fz, pi, cfg + ",mask overwritten afterwards", res, msgs)
                # decoders on the user-supplied mask (masks need not satisfy the partial order of the 5G sets): noise-free LLRs give the message back
                if ok_enc and form == "list":
                    from kaira.models.fec.decoders import BeliefPropagationPolarDecoder, SuccessiveCancellationDecoder
                    for regime in ("sum_product", "min_sum"):
                        try:
                            _clean(SuccessiveCancellationDecoder(enc, regime=regime), enc, N, k, msgs, f"{cfg},{regime}", "sc", res)
                            if not pi and N >= 4 and mk % 5 == 1:
                                _clean(BeliefPropagationPolarDecoder(enc, bp_iters=12, regime=regime), enc, N, k, msgs, f"{cfg},{regime}", "polar-bp", res)
                        except Exception as e:  # noqa: BLE001
                            res.viol("sc", f"{cfg},{regime}", "raises", f"decoder on a user mask: {type(e).__name__}: {str(e)[:160]}")
    res.sample({"N": N, "masks": len(masks)})


def _clean(dec, enc, N, k, msgs, cfg, comp, res):
    import torch
    x = torch.tensor(msgs, dtype=torch.float32)
    cw = enc(x)
    ncall = 0
    for mag in MAGS:
        llr = (1 - 2 * cw) * mag
        for B in (len(msgs), 1, 3, len(msgs)):
            # the same decoder object serves all calls: every other call presents the words in reverse order (and the single word is another one),
            # so that anything kept from the previous call belongs to different words
            ncall += 1
            B = min(B, len(msgs))
            rev = ncall % 2 == 0
            idx = list(range(len(msgs) - 1, len(msgs) - 1 - B, -1)) if rev else list(range(B))
            sub = llr[idx]
            xs = x[idx]
            try:
                y = dec(sub)
            except Exception as e:  # noqa: BLE001
                res.viol(comp, cfg, "raises", f"noise-free LLRs magnitude {mag}, batch {B}: {type(e).__name__}: {str(e)[:200]}")
                return
            res.ev(sub.shape[0], nontrivial=sub.shape[0], transitions=1)
            if tuple(y.shape) != (sub.shape[0], k):
                res.viol(comp, cfg, "shape", f"output shape {tuple(y.shape)} for {sub.shape[0]} blocks, k={k}")
                return
            if not torch.equal(y.to(torch.float32), xs):
                i = int((y.to(torch.float32) != xs).any(dim=1).nonzero()[0])
                res.viol(comp, cfg, "clean", f"noise-free LLRs (magnitude {mag}, batch {B}, call {ncall} on this decoder) of message {xs[i].tolist()} decoded to {y[i].tolist()}", {"msg": xs[i].tolist(), "mag": mag})
                return


def sc_case(p, res):
    from kaira.models.fec.decoders import SuccessiveCancellationDecoder
    N, fz, pi, regime = p["N"], p["fz"], p["pi"], p["regime"]
    for k in p["ks"]:
        cfg = f"N={N},k={k},{regime},fz={int(fz)},pi={int(pi)}"
        enc = _enc(k, N, frozen_zeros=fz, polar_i=pi, load_rank=True)
        dec = SuccessiveCancellationDecoder(enc, regime=regime)
        msgs = _msgs(k)
        if len(msgs) > 256:
            msgs = msgs[:128] + msgs[-128:]
        _clean(dec, enc, N, k, msgs, cfg, "sc", res)
    res.sample({"N": N, "ks": p["ks"], "regime": regime})


def bp_case(p, res):
    from kaira.models.fec.decoders import BeliefPropagationPolarDecoder
    N, fz, regime = p["N"], p["fz"], p["regime"]
    q = p["tier"] == "quick"
    for k in p["ks"]:
        enc = _enc(k, N, frozen_zeros=fz, polar_i=False, load_rank=True)
        msgs = _msgs(k)
        if len(msgs) > 64:
            msgs = msgs[:32] + msgs[-32:]
        for iters in (5, 10, 20):
            for es in (False, True):
                for perm in (None, "cycle"):
                    if q and iters == 10 and perm == "cycle":
                        continue
                    cfg = f"N={N},k={k},{regime},fz={int(fz)},it={iters},es={int(es)},perm={perm}"
                    try:
                        dec = BeliefPropagationPolarDecoder(enc, bp_iters=iters, early_stop=es, regime=regime, perm=perm)
                    except Exception as e:  # noqa: BLE001
                        res.viol("polar-bp", cfg, "raises", f"constructor: {type(e).__name__}: {e}")
                        continue
                    _clean(dec, enc, N, k, msgs, cfg, "polar-bp", res)
    res.sample({"N": N, "ks": p["ks"], "regime": regime})


def sc_rule_long_case(p, res):
    """textbook SC (min-sum regime, dyadic magnitudes: every partial sum is exact in single precision) on 16 fixed pseudo-random LLR vectors per
    configuration, magnitudes up to 0.75 and up to 100, k in {1,2,3,16}, both frozen values"""
    import torch
    from kaira.models.fec.decoders import SuccessiveCancellationDecoder
    N = p["N"]
    Q = _Q()

    def vecs(nv, top):
        out, s_ = [], 12345
        for _ in range(nv):
            row = []
            for _i in range(N):
                s_ = (s_ * 1103515245 + 12345) % (1 << 31)
                mag = ((s_ >> 8) % int(top * 4)) * 0.25 + 0.25
                s_ = (s_ * 1103515245 + 12345) % (1 << 31)
                row.append(mag if (s_ >> 12) & 1 else -mag)
            out.append(row)
        return out
    for k in (1, 2, 3, 16):
        for fz in (True, False):
            enc = _enc(k, N, frozen_zeros=fz, load_rank=True)
            dec = SuccessiveCancellationDecoder(enc, regime="min_sum")
            info = PR.info_set_from_ranking(Q, N, k)
            mask = [i in info for i in range(N)]
            for top in (0.75, 100.0):
                cfg = f"N={N},k={k},min_sum,fz={int(fz)},|L|<={top}"
                V = vecs(16, top)
                try:
                    y = dec(torch.tensor(V, dtype=torch.float32)).tolist()
                except Exception as e:  # noqa: BLE001
                    res.viol("sc", cfg, "raises", f"{type(e).__name__}: {str(e)[:200]}")
                    continue
                for vi, (vec, got) in enumerate(zip(V, y)):
                    u, tie = PR.sc_decode(vec, mask, 0 if fz else 1, "min_sum")
                    if tie:
                        res.bump("ties_skipped")
                        continue
                    res.ev(1, nontrivial=1, transitions=1)
                    want = [u[i] for i in info]
                    if [int(t) if float(t).is_integer() else t for t in got] != want:
                        res.viol("sc", cfg, "sc-rule", f"pseudo-random LLR vector #{vi} (dyadic magnitudes up to {top}): decoder output {got}, textbook successive cancellation gives {want}", {"vector": vi, "top": top})
                        break
    res.sample({"N": N, "vectors_per_config": 16})


def sc_rule_case(p, res):
    """SC output on arbitrary LLR vectors equals the textbook SC decisions."""
    import torch
    from kaira.models.fec.decoders import SuccessiveCancellationDecoder
    N, regime, pi = p["N"], p["regime"], p["pi"]
    m = N.bit_length() - 1
    if N <= 8:
        allv = list(product([0.731, -0.731, 1.913, -1.913], repeat=N))
    else:
        allv = [tuple(0.731 * (1 - 2 * ((s >> i) & 1)) for i in range(N)) for s in range(1 << N)]
    vecs = allv[p["blk"]::p["nb"]]
    Q = _Q()
    ks = sorted({1, N // 2, N - 1}) if N > 2 else [1]
    for k in ks:
        for fz in (True, False):
            cfg = f"N={N},k={k},{regime},fz={int(fz)},pi={int(pi)}"
            enc = _enc(k, N, frozen_zeros=fz, polar_i=pi, load_rank=True)
            dec = SuccessiveCancellationDecoder(enc, regime=regime)
            info = PR.info_set_from_ranking(Q, N, k)
            infomask = [i in info for i in range(N)]
            try:
                y = dec(torch.tensor(vecs, dtype=torch.float32)).tolist()
            except Exception as e:  # noqa: BLE001
                res.viol("sc", cfg, "raises", f"{type(e).__name__}: {str(e)[:200]}")
                continue
            nbad = 0
            for vec, got in zip(vecs, y):
                yy = [vec[PR.bitrev(i, m)] for i in range(N)] if pi else list(vec)
                u, tie = PR.sc_decode(yy, infomask, 0 if fz else 1, regime)
                if tie:
                    res.bump("ties_skipped")
                    continue
                res.ev(1, nontrivial=1, transitions=0)
                want = [u[i] for i in info]
                if [int(t) for t in got] != want:
                    nbad += 1
                    if nbad == 1:
                        res.viol("sc", cfg, "sc-rule", f"LLRs {list(vec)}: decoder output {got}, textbook successive cancellation gives {want}", {"llr": list(vec)})
            res.transitions += 1
    res.sample({"N": N, "vectors": len(vecs), "regime": regime, "polar_i": pi})


# ----------------------------------------------------------------------------- life-cycle equivalence of the components behind this property
# (deep copy / pickle / state_dict / eval-train / cast round trip / no_grad ... leave the behaviour unchanged; shared helper kmc/lifecycle.py)
_cases1, _execute1, _component1 = cases, execute, component_of


def cases(tier, seed):  # noqa: F811
    yield from _cases1(tier, seed)
    yield f"{PID}|lifecycle", {"kind": "lifecycle", "tier": tier}


def execute(p, res):  # noqa: F811
    if p.get("kind") == "lifecycle":
        from kmc import lifecycle
        return lifecycle.run(PID, res)
    return _execute1(p, res)


def component_of(p):  # noqa: F811
    return "lifecycle" if p.get("kind") == "lifecycle" else _component1(p)
