"""C16 – error-rate metrics are exact counts; the streaming form is partition independent (E2 + E1)."""
from fractions import Fraction
from itertools import permutations, product

from kmc import bfs

PID = "C16"
ENGINE = "kmc-E2-bfs + kmc-E1-space"
RULE = ("BFS over EVERY history of {update(b) for a pool of batches, compute, reset, forward(b)} up to depth 4 (quick) / 6 (thorough) on real metric "
        "objects with a two-counter reference stepped in lock-step (state = whole object state); every composition of a 12-block stream into contiguous "
        "chunks and every permutation of <= 4 chunks; every pair of binary vectors of length <= 6 (quick) / 8 (thorough) for the one-shot laws; a state "
        "is a canonical metric state or an (x, y) pair; non-trivial = x != y")
ASSUME = ["bits are presented as {0,1} float tensors (complex: real and imaginary part each carry one bit)"]
HORIZON = {"quick": 240, "thorough": 3600}


def bounds(tier):
    q = tier == "quick"
    return {"history_depth": 4 if q else 6, "pool_batches": 5, "stream_blocks": 12, "pairs_length": "1..6" if q else "1..8"}


def cases(tier, seed):
    for form in ("real", "complex"):
        for shape in ("4", "2x4", "2x2x2"):
            yield f"C16|ber|bfs|{form},{shape}", {"kind": "bfs", "metric": "ber", "bs": None, "form": form, "shape": shape, "tier": tier}
    for alias in ("BlockErrorRate", "SER", "FER"):
        for bs in (None, 1, 2, 4):
            for form in ("real", "complex"):
                for shape in ("2x4", "2x2x2"):
                    if alias != "BlockErrorRate" and (form == "complex" or shape != "2x4"):
                        continue
                    yield f"C16|bler|bfs|{alias},bs={bs},{form},{shape}", {"kind": "bfs", "metric": alias, "bs": bs, "form": form, "shape": shape, "tier": tier}
    yield "C16|ber|all-counts", {"kind": "counts", "tier": tier}
    yield "C16|ber|partition", {"kind": "partition", "metric": "ber", "tier": tier}
    for bs in (None, 2, 4):
        yield f"C16|bler|partition|bs={bs}", {"kind": "partition", "metric": "bler", "bs": bs, "tier": tier}
    for dt in ("float32", "float64", "int64"):
        yield f"C16|bler|symbols|{dt}", {"kind": "symbols", "dtype": dt, "tier": tier}
    for dt in ("float32", "float64", "float16", "bfloat16", "int64", "int32", "int8", "uint8", "bool"):
        yield f"C16|dtypes|{dt}", {"kind": "dtypes", "dtype": dt, "tier": tier}
    Ls = range(1, 7) if tier == "quick" else range(1, 9)
    for L in Ls:
        yield f"C16|oneshot|L={L}", {"kind": "oneshot", "L": L, "tier": tier}


def component_of(p):
    return "ber" if p.get("metric") == "ber" else "dtypes" if p["kind"] == "dtypes" else "bler" if p["kind"] != "oneshot" else "oneshot"


def execute(p, res):
    {"bfs": bfs_case, "partition": partition_case, "oneshot": oneshot_case, "counts": counts_case, "symbols": symbols_case, "dtypes": dtypes_case}[p["kind"]](p, res)


# ----------------------------------------------------------------------------- helpers
def make_metric(name, bs):
    import kaira.metrics.signal.bler as B
    from kaira.metrics.signal.ber import BitErrorRate
    if name == "ber":
        return BitErrorRate()
    cls = {"BlockErrorRate": B.BlockErrorRate, "SER": B.SER, "FER": B.FER, "bler": B.BlockErrorRate}[name]
    return cls(block_size=bs)


def pool(form, shape):
    """5 batches of 8 'bit slots' as (x, y) python lists of 0/1 (flat, length 8)"""
    base = [1, 0, 1, 1, 0, 0, 1, 0]
    out = [(base, list(base)), (base, [1 - b for b in base])]
    y = list(base)
    y[2] ^= 1
    out.append((base, y))
    y = list(base)
    y[0] ^= 1
    y[1] ^= 1
    out.append((base, y))
    y = list(base)
    y[1] ^= 1
    y[6] ^= 1
    out.append((base, y))
    return out


def to_tensor(bits, form, shape):
    import torch
    if form == "real":
        vals = bits if shape != "4" else bits[:4]
        t = torch.tensor(vals, dtype=torch.float32)
        return t.reshape({"4": (4,), "2x4": (2, 4), "2x2x2": (2, 2, 2)}[shape])
    # complex: pairs of bits -> one complex sample (real, imag); 8 bits -> 4 complex samples
    re, im = bits[0::2], bits[1::2]
    t = torch.complex(torch.tensor(re, dtype=torch.float32), torch.tensor(im, dtype=torch.float32))
    return t.reshape({"4": (4,), "2x4": (2, 2), "2x2x2": (2, 2, 1)}[shape])


def ref_counts(metric, bs, xb, yb, form, shape):
    """(errors, total) the reference counts for one batch given as flat bit lists"""
    if metric == "ber":
        n = len(xb) if not (form == "real" and shape == "4") else 4
        return sum(1 for a, b in zip(xb[:n], yb[:n]) if a != b), n
    # block error: rows = batch items (first dim = 2), row elements in row-major order; complex sample differs if either bit differs
    if form == "real":
        ex, ey = xb, yb
    else:
        ex = list(zip(xb[0::2], xb[1::2]))
        ey = list(zip(yb[0::2], yb[1::2]))
    half = len(ex) // 2
    rows = [(ex[:half], ey[:half]), (ex[half:], ey[half:])]
    err = tot = 0
    for rx, ry in rows:
        B = len(rx) if bs is None else bs
        if len(rx) % B:
            return None
        for i in range(0, len(rx), B):
            tot += 1
            err += 1 if rx[i:i + B] != ry[i:i + B] else 0
    return err, tot


def counters(m, metric):
    if metric == "ber":
        return int(m.error_bits), int(m.total_bits)
    return int(m.error_blocks), int(m.total_blocks)


def close(val, err, tot):
    want = Fraction(err, max(tot, 1))
    return abs(float(val) - float(want)) <= 2 ** -22 * max(float(want), 2 ** -20)


def bfs_case(p, res):
    metric, bs, form, shape = p["metric"], p["bs"], p["form"], p["shape"]
    comp = "ber" if metric == "ber" else "bler"
    cfg = f"{metric},bs={bs},{form},{shape}"
    depth = 4 if p["tier"] == "quick" else 6
    batches = pool(form, shape)
    tens = [(to_tensor(x, form, shape), to_tensor(y, form, shape)) for x, y in batches]
    refs = [ref_counts(metric, bs, x, y, form, shape) for x, y in batches]
    if any(r is None for r in refs):
        # block size does not divide the row length: every update / forward must be rejected
        m = make_metric(metric, bs)
        for t in tens[:2]:
            for f in (m.update, m.forward):
                try:
                    f(*t)
                    res.viol(comp, cfg, "must-reject", f"{f.__name__} accepted rows whose length is not a multiple of block_size={bs}")
                except Exception:  # noqa: BLE001
                    res.rejected += 1
                res.ev(1, transitions=1)
        return

    class Sys:
        def __init__(self):
            self.m = make_metric(metric, bs)
            self.err = 0
            self.tot = 0
    init = bfs.canon_module(make_metric(metric, bs))

    def op_update(i):
        def f(s):
            s.m.update(*tens[i])
            s.err += refs[i][0]
            s.tot += refs[i][1]
            return ("update", None)
        return f

    def op_forward(i):
        def f(s):
            return ("forward", (float(s.m.forward(*tens[i])), refs[i]))
        return f

    def op_compute(s):
        return ("compute", float(s.m.compute()))

    def op_reset(s):
        s.m.reset()
        s.err = s.tot = 0
        return ("reset", None)
    ops = [(f"update(b{i})", op_update(i)) for i in range(5)] + [("compute", op_compute), ("reset", op_reset)] + [(f"forward(b{i})", op_forward(i)) for i in (1, 2)]

    def canon(s):
        return bfs.canon_module(s.m)

    def on_tr(names, s, obs):
        v = lambda clause, d: res.viol(comp, cfg, clause, f"history {list(names)}: {d}", {"history": list(names)})  # noqa: E731
        if isinstance(obs, Exception):
            v("raises", f"{type(obs).__name__}: {str(obs)[:160]}")
            return
        kind, val = obs
        e, t = counters(s.m, metric)
        if (e, t) != (s.err, s.tot):
            v("count", f"object counters (errors={e}, total={t}) but the reference counted (errors={s.err}, total={s.tot})")
        c = float(s.m.compute())
        if not close(c, s.err, s.tot):
            v("stream=oneshot", f"compute() = {c} but errors/total = {s.err}/{max(s.tot, 1)}")
        if kind == "forward":
            fv, (fe, ft) = val
            if not close(fv, fe, ft):
                v("count", f"forward() = {fv} but the batch has {fe}/{ft} errors")
        if kind == "compute" and not close(val, s.err, s.tot):
            v("stream=oneshot", f"compute() returned {val}, expected {s.err}/{max(s.tot, 1)}")
        if kind == "reset" and bfs.canon_module(s.m) != init:
            v("reset", "state after reset() differs from a freshly constructed metric")
        res.outcome((s.err, s.tot))
    st = bfs.explore(Sys, ops, depth, canon, on_tr)
    res.ev(st["transitions"], nontrivial=st["transitions"], states=st["states"], transitions=st["transitions"])
    res.bump("bfs_states", st["states"])
    res.bump("bfs_transitions", st["transitions"])
    res.sample({"metric": metric, "block_size": bs, "form": form, "shape": shape, "depth": depth, "states": st["states"], "transitions": st["transitions"]})


def counts_case(p, res):
    """every (errors, bits) pair with bits <= 64 (quick) / 128 (thorough) as ONE update on a fresh metric, and as the second of two updates:
    the accumulated counters are exact integers (no float round trip), compute() is the exact fraction"""
    import torch
    from kaira.metrics.signal.ber import BitErrorRate
    from kaira.metrics.signal.bler import BlockErrorRate
    top = 64 if p["tier"] == "quick" else 128
    nb = 0
    for n in range(1, top + 1):
        x = torch.zeros(1, n)
        for e in range(0, n + 1):
            y = x.clone()
            y[0, :e] = 1.0
            m = BitErrorRate()
            m.update(x, y)
            res.ev(1, nontrivial=1 if e else 0, transitions=2)
            if (int(m.error_bits), int(m.total_bits)) != (e, n) or not close(float(m.compute()), e, n):
                nb += 1
                if nb <= 3:
                    res.viol("ber", f"n={n},e={e}", "count", f"one update with {e} differing bits of {n}: counters ({int(m.error_bits)}, {int(m.total_bits)}), compute() = {float(m.compute())}", {"n": n, "e": e})
            m.update(x, y)
            if (int(m.error_bits), int(m.total_bits)) != (2 * e, 2 * n):
                nb += 1
                if nb <= 3:
                    res.viol("ber", f"n={n},e={e}", "stream=oneshot", f"two updates with {e}/{n}: counters ({int(m.error_bits)}, {int(m.total_bits)})", {"n": n, "e": e})
            if n % 3 == 0 and e % 3 == 0:
                b = BlockErrorRate(block_size=3)
                b.update(x, y)
                if (int(b.error_blocks), int(b.total_blocks)) != (e // 3, n // 3) or not close(float(b.compute()), e // 3, n // 3):
                    res.viol("bler", f"n={n},e={e}", "count", f"block counters ({int(b.error_blocks)}, {int(b.total_blocks)}) for {e // 3} bad blocks of {n // 3}")
    # counts beyond single-precision integer range: 2^24+3 bits, all / one / none differing, one update and two updates (a count kept in
    # float32 stops at 2^24)
    N = (1 << 24) + 3
    x = torch.zeros(1, N)
    for e, y in ((N, torch.ones(1, N)), (1, None), (0, torch.zeros(1, N))):
        if y is None:
            y = torch.zeros(1, N)
            y[0, N - 2] = 1.0
        for cls, bs, cnt in ((BitErrorRate, None, "ber"), (BlockErrorRate, 1, "bler")):
            m = cls() if bs is None else cls(block_size=bs)
            f = float(m.forward(x, y))
            m.update(x, y)
            m.update(x, y)
            got = counters(m, cnt)
            res.ev(2, nontrivial=2 if e else 0, transitions=3)
            if got != (2 * e, 2 * N) or abs(f - e / N) > 2 ** -22 * max(e / N, 2 ** -30):
                res.viol(cnt, f"n={N},e={e}", "count", f"{N} bits with {e} differing: forward {f!r} (exact {e / N!r}), counters after two updates {got}, exact {(2 * e, 2 * N)}")
    res.sample({"pairs": top * (top + 3) // 2, "long": N})


def symbols_case(p, res):
    """symbol / frame error rate over a large alphabet: rows of W symbols whose values have magnitude 10^k, with ONE symbol differing by the smallest
    step the dtype resolves there (off by one for integers, one ulp-scale step or 10^-k for floats); every (magnitude, position, block size) and
    every way of presenting the batch (forward, one update, update after a clean / dirty batch, reversed arguments); reference = exact comparison of
    the stored values.  'zero exactly when the inputs agree' is decided on values, not on closeness."""
    import torch
    dt = getattr(torch, p["dtype"])
    W, R = 4, 3
    cfg = f"symbols,{p['dtype']}"
    isint = p["dtype"] == "int64"
    mags = [10 ** k for k in range(0, 7 if p["dtype"] == "float32" else 13)]
    steps = {}
    for mag in mags:
        steps[("mag", mag)] = (mag, 1)                    # off by one at magnitude mag (exactly representable: < 2^24 / 2^53)
    if not isint:
        for k in range(1, 7 if p["dtype"] == "float32" else 13):
            steps[("tiny", k)] = (0.0, 10.0 ** -k)        # tiny difference next to 0
            steps[("frac", k)] = (1.0, 2.0 ** -(k if p["dtype"] == "float32" else 3 * k))   # 1 vs 1 + 2^-j (representable)
    dirty_x = torch.tensor([[1, 2, 3, 4]] * R).to(dt)
    dirty_y = torch.tensor([[1, 2, 3, 5], [1, 2, 3, 4], [0, 2, 3, 4]]).to(dt)      # 2 bad rows of 3 (bs=None), bad blocks: bs=1:2, bs=2:2, bs=4:2
    nb = 0
    for key, (base, step) in steps.items():
        for pos in range(R * W):
            xs = [[base + (r * W + c) % 3 * (1 if isint or key[0] == "mag" else 0) for c in range(W)] for r in range(R)]
            ys = [list(r_) for r_ in xs]
            ys[pos // W][pos % W] = xs[pos // W][pos % W] + step
            X = torch.tensor(xs, dtype=dt)
            Y = torch.tensor(ys, dtype=dt)
            stored_diff = [[X[r, c].item() != Y[r, c].item() for c in range(W)] for r in range(R)]
            if not any(any(r_) for r_ in stored_diff):
                continue                                  # the step is below the dtype's resolution: not a difference
            for bs in (None, 1, 2, 4):
                B = W if bs is None else bs
                e = sum(1 for r in range(R) for k in range(0, W, B) if any(stored_diff[r][k:k + B]))
                t = R * (W // B)
                de = {None: 2, 1: 2, 2: 2, 4: 2}[bs]
                dtot = R * (W // B)
                obs = {}
                m = make_metric("bler", bs)
                obs["forward"] = (float(m.forward(X, Y)), e, t)
                obs["forward-swapped"] = (float(m.forward(Y, X)), e, t)
                m = make_metric("SER", bs)
                m.update(X, Y)
                obs["update"] = (counters(m, "bler"), (e, t))
                m.update(X, X)
                obs["update,clean"] = (counters(m, "bler"), (e, 2 * t))
                m = make_metric("FER", bs)
                m.update(dirty_x, dirty_y)
                m.update(X, Y)
                obs["dirty,update"] = (counters(m, "bler"), (e + de, t + dtot))
                m = make_metric("bler", bs)
                m.update(torch.cat([dirty_x, X]), torch.cat([dirty_y, Y]))
                obs["update(concat)"] = (counters(m, "bler"), (e + de, t + dtot))
                res.ev(len(obs), nontrivial=len(obs), transitions=len(obs) + 3)
                for how, o in obs.items():
                    bad = (not close(o[0], o[1], o[2])) if how.startswith("forward") else (o[0] != o[1])
                    if bad:
                        nb += 1
                        if nb <= 4:
                            clause = "count" if how.startswith("forward") else "stream=oneshot"
                            res.viol("bler", cfg, clause, f"{how}: symbols of magnitude {base} differing by {step} at position {pos}, block_size={bs}: got {o[0]}, exact {o[1:] if how.startswith('forward') else o[1]}",
                                     {"base": base, "step": step, "pos": pos, "bs": bs, "how": how})
    res.sample({"dtype": p["dtype"], "steps": len(steps), "positions": R * W})


def dtypes_case(p, res):
    """bits presented in other dtypes (and as non-contiguous views): every pair of binary rows of length <= 4, one-shot and streamed; a metric may
    decline a dtype (an error), it may not count differently"""
    import torch
    dt = getattr(torch, p["dtype"])
    cfg = p["dtype"]
    nb = 0
    for L in (1, 2, 3, 4):
        vecs = [list(v_) for v_ in product([0, 1], repeat=L)]
        for x in vecs:
            for y in vecs:
                d = sum(a != b for a, b in zip(x, y))
                for view in ("c", "t"):
                    X = torch.tensor([x, y], dtype=torch.float32).to(dt)
                    Y = torch.tensor([y, y], dtype=torch.float32).to(dt)
                    if view == "t":
                        if L == 1:
                            continue
                        X, Y = X.t().contiguous().t(), Y.t().contiguous().t()
                    if view == "c":
                        # the benchmark-side helpers on the same bits (both argument orders)
                        from kaira.benchmarks.metrics import StandardMetrics
                        for a_, b_, tag in ((X[0], Y[0], "x,y"), (Y[0], X[0], "y,x")):
                            for hname, call, (e_, t_) in (("bit_error_rate", lambda: StandardMetrics.bit_error_rate(a_, b_), (d, L)),
                                                          ("block_error_rate", lambda: StandardMetrics.block_error_rate(a_, b_, L), (1 if d else 0, 1)),
                                                          ("block_error_rate(1)", lambda: StandardMetrics.block_error_rate(a_, b_, 1), (d, L))):
                                try:
                                    hv = float(call())
                                except Exception:  # noqa: BLE001
                                    res.rejected += 1
                                    continue
                                res.ev(1, nontrivial=1 if d else 0, transitions=1)
                                if not close(hv, e_, t_):
                                    nb += 1
                                    if nb <= 4:
                                        res.viol("helper", cfg, "helper-agrees", f"StandardMetrics.{hname}({tag}) on {p['dtype']} bits x={x} y={y}: {hv}, exact {e_}/{t_}", {"x": x, "y": y})
                    want = {"ber": (d, 2 * L), "bler": (1 if d else 0, 2), "bler1": (d, 2 * L)}
                    for name, mk in (("ber", lambda: make_metric("ber", None)), ("bler", lambda: make_metric("bler", None)), ("bler1", lambda: make_metric("bler", 1))):
                        e, t = want[name]
                        try:
                            m = mk()
                            f = float(m.forward(X, Y))
                            m.update(X, Y)
                            m.update(Y, Y)
                            c = counters(m, "ber" if name == "ber" else "bler")
                        except Exception:  # noqa: BLE001
                            res.rejected += 1
                            continue
                        res.ev(2, nontrivial=2 if d else 0, transitions=3)
                        if not close(f, e, t) or c != (e, 2 * t):
                            nb += 1
                            if nb <= 4:
                                res.viol(name[:4], cfg, "count" if not close(f, e, t) else "stream=oneshot",
                                         f"{name} on {p['dtype']} bits{' (transposed view)' if view == 't' else ''} x={[x, y]} y={[y, y]}: forward {f}, counters after update+clean update {c}; exact {e}/{t}", {"x": x, "y": y, "view": view})
    res.sample({"dtype": p["dtype"]})


def partition_case(p, res):
    import torch
    metric = p["metric"]
    bs = p.get("bs")
    comp = "ber" if metric == "ber" else "bler"
    cfg = f"partition,bs={bs}"
    N = 12
    W = 4
    xs = [[(i * 5 + j * 3 + (i * j) % 3) % 2 for j in range(W)] for i in range(N)]
    ys = [list(r) for r in xs]
    for (i, j) in ((0, 1), (3, 0), (3, 2), (7, 3), (8, 0), (8, 1), (8, 2), (8, 3), (11, 2)):
        ys[i][j] ^= 1
    X = torch.tensor(xs, dtype=torch.float32)
    Y = torch.tensor(ys, dtype=torch.float32)
    one = float(make_metric(metric, bs).forward(X, Y))
    # exact reference
    if metric == "ber":
        e, t = sum(a != b for rx, ry in zip(xs, ys) for a, b in zip(rx, ry)), N * W
    else:
        B = W if bs is None else bs
        e = sum(1 for rx, ry in zip(xs, ys) for k in range(0, W, B) if rx[k:k + B] != ry[k:k + B])
        t = N * (W // B)
    if not close(one, e, t):
        res.viol(comp, cfg, "count", f"one-shot value {one} but exact fraction is {e}/{t}")
    nbad = 0
    for mask in range(1 << (N - 1)):
        cuts = [0] + [k + 1 for k in range(N - 1) if (mask >> k) & 1] + [N]
        chunks = [(cuts[a], cuts[a + 1]) for a in range(len(cuts) - 1)]
        orders = [chunks] if len(chunks) > 4 else [list(pm) for pm in permutations(chunks)]
        for order in orders:
            m = make_metric(metric, bs)
            for a, b in order:
                m.update(X[a:b], Y[a:b])
            val = float(m.compute())
            res.ev(1, nontrivial=1 if len(order) > 1 else 0, transitions=len(order) + 1)
            if not close(val, e, t):
                nbad += 1
                if nbad == 1:
                    res.viol(comp, cfg, "stream=oneshot", f"chunks {order}: streamed value {val}, one-shot {one} (exact {e}/{t})", {"chunks": order})
    res.sample({"metric": metric, "block_size": bs, "compositions": 1 << (N - 1)})


def oneshot_case(p, res):
    import torch
    from kaira.benchmarks.metrics import StandardMetrics
    from kaira.metrics.signal.ber import BitErrorRate
    from kaira.metrics.signal.bler import BlockErrorRate
    L = p["L"]
    vecs = [list(v) for v in product([0, 1], repeat=L)]
    X = torch.tensor(vecs, dtype=torch.float32)
    ber = BitErrorRate()
    divisors = [B for B in range(1, L + 1) if L % B == 0]
    blers = {B: BlockErrorRate(block_size=B) for B in divisors}
    bler_none = BlockErrorRate()
    cfg = f"L={L}"
    v = lambda comp, clause, d, f=None: res.viol(comp, cfg, clause, d, f)  # noqa: E731
    for i, x in enumerate(vecs):
        xt = X[i:i + 1]
        for j, y in enumerate(vecs):
            yt = X[j:j + 1]
            d = sum(a != b for a, b in zip(x, y))
            res.ev(1, nontrivial=1 if d else 0, transitions=2 + len(divisors))
            b1 = float(ber(xt, yt))
            if not close(b1, d, L):
                v("ber", "count", f"BER({x},{y}) = {b1}, exact {d}/{L}", {"x": x, "y": y})
            if i < j and float(ber(yt, xt)) != b1:
                v("ber", "symmetric", f"BER({x},{y}) != BER({y},{x})")
            if (b1 == 0.0) != (d == 0):
                v("ber", "zero-iff-equal", f"BER({x},{y}) = {b1}")
            for B in divisors:
                nb = L // B
                eb = sum(1 for k in range(0, L, B) if x[k:k + B] != y[k:k + B])
                bl = float(blers[B](xt, yt))
                if not close(bl, eb, nb):
                    v("bler", "count", f"BLER_B={B}({x},{y}) = {bl}, exact {eb}/{nb}", {"x": x, "y": y, "B": B})
                if not (b1 <= bl + 1e-7 and bl <= min(1.0, B * b1) + 1e-7):
                    v("bler", "ber-bler-bound", f"BER={b1}, BLER_B={B}={bl} violates BER <= BLER <= min(1, B*BER)", {"x": x, "y": y, "B": B})
                if (bl == 0.0) != (d == 0):
                    v("bler", "zero-iff-equal", f"BLER_B={B}({x},{y}) = {bl}")
                if j % 7 == 0:
                    if float(blers[B](yt, xt)) != bl:
                        v("bler", "symmetric", f"BLER_B={B} not symmetric at ({x},{y})")
                    hb = StandardMetrics.block_error_rate(xt[0], yt[0], B)
                    if not close(hb, eb, nb):
                        v("helper", "helper-agrees", f"StandardMetrics.block_error_rate({x},{y},{B}) = {hb}, exact {eb}/{nb}")
            if j % 5 == 0:
                hv = StandardMetrics.bit_error_rate(xt[0], yt[0])
                if not close(hv, d, L):
                    v("helper", "helper-agrees", f"StandardMetrics.bit_error_rate({x},{y}) = {hv}, exact {d}/{L}")
                bn = float(bler_none(xt, yt))
                if bn != (1.0 if d else 0.0):
                    v("bler", "count", f"BLER(block=row)({x},{y}) = {bn}")
    # the same pairs in every layout of L bits (real: (L,), (L,1), 0-d when L = 1; complex samples carrying two bits each: (L/2,), (1,L/2), (L/2,1) and
    # 0-d for a single symbol): one-shot value = exact fraction = streaming value
    if L <= 4:
        for i, x in enumerate(vecs):
            for j, y in enumerate(vecs):
                d = sum(a != b for a, b in zip(x, y))
                lays = [("real(L,)", X[i], X[j]), ("real(L,1)", X[i].reshape(L, 1), X[j].reshape(L, 1))]
                if L == 1:
                    lays.append(("real()", X[i].reshape(()), X[j].reshape(())))
                if L % 2 == 0:
                    cx = torch.complex(X[i][0::2], X[i][1::2])
                    cy = torch.complex(X[j][0::2], X[j][1::2])
                    lays += [("complex(L/2,)", cx, cy), ("complex(1,L/2)", cx.reshape(1, -1), cy.reshape(1, -1)), ("complex(L/2,1)", cx.reshape(-1, 1), cy.reshape(-1, 1))]
                    if L == 2:
                        lays.append(("complex()", cx.reshape(()), cy.reshape(())))
                for lname, xa, ya in lays:
                    try:
                        one = float(BitErrorRate()(xa, ya))
                        ms = BitErrorRate()
                        ms.update(xa, ya)
                        st_ = float(ms.compute())
                    except Exception:  # noqa: BLE001
                        res.rejected += 1
                        continue
                    res.ev(1, nontrivial=1 if d else 0, transitions=3)
                    if not close(one, d, L) or not close(st_, d, L):
                        v("ber", "count", f"{lname}: BER({x},{y}) one-shot {one}, streaming {st_}, exact {d}/{L}", {"x": x, "y": y, "layout": lname})
    # all pairs as one batch: reductions consistent
    if L <= 5:
        XX = X.repeat_interleave(len(vecs), dim=0)
        YY = X.repeat(len(vecs), 1)
        per = [1.0 if a != b else 0.0 for a in vecs for b in vecs]
        for B in divisors:
            none = BlockErrorRate(block_size=B, reduction="none")(XX, YY)
            sm = float(BlockErrorRate(block_size=B, reduction="sum")(XX, YY))
            mn = float(BlockErrorRate(block_size=B, reduction="mean")(XX, YY))
            res.ev(3, transitions=3)
            if abs(float(none.sum()) - sm) > 1e-3 or abs(mn - sm / none.numel()) > 1e-6:
                v("bler", "count", f"reductions disagree for B={B}: none.sum={float(none.sum())}, sum={sm}, mean={mn}, blocks={none.numel()}")
    # non-divisor block sizes must be rejected
    for B in range(1, L + 2):
        if L % B == 0:
            continue
        for f in ("forward", "update"):
            m = BlockErrorRate(block_size=B)
            try:
                getattr(m, f)(X[:2], X[1:3])
                v("bler", "must-reject", f"{f} accepted rows of length {L} with block_size={B}")
            except Exception:  # noqa: BLE001
                res.rejected += 1
            res.ev(1, transitions=1)
    res.sample({"L": L, "pairs": len(vecs) ** 2, "block_sizes": divisors})


# ----------------------------------------------------------------------------- spelling equivalence of the constructors behind this property
# (positional / keyword / mixed spellings of one legal call configure the same object; shared helper kmc/spelling.py)
_cases0, _execute0, _component0 = cases, execute, component_of


def cases(tier, seed):  # noqa: F811
    yield from _cases0(tier, seed)
    yield f"{PID}|spelling", {"kind": "spelling", "tier": tier}


def execute(p, res):  # noqa: F811
    if p.get("kind") == "spelling":
        from kmc import spelling
        return spelling.run(PID, res)
    return _execute0(p, res)


def component_of(p):  # noqa: F811
    return "spelling" if p.get("kind") == "spelling" else _component0(p)


# ----------------------------------------------------------------------------- life-cycle equivalence of the components behind this property
# (deep copy / pickle / state_dict / eval-train / cast round trip / no_grad ... leave the behaviour unchanged; shared helper kmc/lifecycle.py)
_cases1, _execute1, _component1 = cases, execute, component_of


def cases(tier, seed):  # noqa: F811
    yield from _cases1(tier, seed)
    yield f"{PID}|lifecycle", {"kind": "lifecycle", "tier": tier}


def execute(p, res):  # noqa: F811
    if p.get("kind") == "lifecycle":
        from kmc import lifecycle
        return lifecycle.run(PID, res)
    return _execute1(p, res)


def component_of(p):  # noqa: F811
    return "lifecycle" if p.get("kind") == "lifecycle" else _component1(p)
