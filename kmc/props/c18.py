"""C18 – binary polynomial ring laws and GF(2^m) field laws (E1, exhaustive within bounds)."""
from kmc.ref import poly2 as P
from kmc.ref.gf2m import Field

PID = "C18"
ENGINE = "kmc-E1-space"
RULE = ("every pair/triple of binary polynomials below the degree bound, every pair/triple/element of GF(2^m) "
        "below the m bound, every m in 1..16 for modulus/primitive-element; non-trivial = operands not 0/1")
ASSUME = ["reference arithmetic kmc/ref/poly2.py, gf2m.py (self-tested against textbook factorisations in --selftest)"]
HORIZON = {"quick": 120, "thorough": 1800}


def bounds(tier):
    q = tier == "quick"
    return {"poly_pairs_below": 2 ** 8 if q else 2 ** 9, "poly_triples_below": 2 ** 5 if q else 2 ** 6,
            "poly_structured_degree": 200, "field_pairs_m": "1..8", "field_triples_m": "1..5" if q else "1..6",
            "field_elements_full_m": "1..8" if q else "1..10", "field_structured_m": "9..16", "modulus_m": "1..16"}


def cases(tier, seed):
    q = tier == "quick"
    nb = 8 if q else 9
    nblocks = 16
    for blk in range(nblocks):
        yield f"C18|poly|pairs<2^{nb}|block{blk:02d}", {"kind": "pairs", "nb": nb, "blk": blk, "nblocks": nblocks}
    nt = 5 if q else 6
    for blk in range(8):
        yield f"C18|poly|triples<2^{nt}|block{blk}", {"kind": "triples", "nt": nt, "blk": blk, "nblocks": 8}
    yield "C18|poly|structured-deg<=200", {"kind": "large"}
    for m in range(1, 17):
        yield f"C18|gf|m={m}|modulus", {"kind": "modulus", "m": m}
    for m in range(1, 9):
        nbk = 1 if m < 7 else (4 if m == 7 else 14)
        for blk in range(nbk):
            yield f"C18|gf|m={m}|pairs|block{blk:02d}", {"kind": "fpairs", "m": m, "blk": blk, "nblocks": nbk}
    for m in range(1, (5 if q else 6) + 1):
        nbk = 1 if m < 4 else (4 if m == 4 else 14)
        for blk in range(nbk):
            yield f"C18|gf|m={m}|triples|block{blk:02d}", {"kind": "ftriples", "m": m, "blk": blk, "nblocks": nbk}
    for m in range(1, (8 if q else 10) + 1):
        yield f"C18|gf|m={m}|accessors", {"kind": "faccessors", "m": m}
    # histories that cross fields: the same integer value looked at in GF(2^m1) and straight afterwards in GF(2^m2) (minimal polynomial, evaluation
    # of a polynomial, powers, conjugates) - one process per ordered pair block
    for m1 in range(1, 9):
        yield f"C18|gf|cross-field|m1={m1}", {"kind": "crossfield", "m1": m1}
    for m in range(1, 17):
        full = m <= (8 if q else 10)
        nbk = 1 if m < 7 or not full else 8
        for blk in range(nbk):
            yield f"C18|gf|m={m}|elements|block{blk}", {"kind": "felems", "m": m, "full": full, "blk": blk, "nblocks": nbk}


def component_of(p):
    return "poly" if p["kind"] in ("pairs", "triples", "large") else "gf"


def _BP():
    from kaira.models.fec.algebra import BinaryPolynomial
    return BinaryPolynomial


def _poly_pair(res, BP, a, b, cfg):
    A, B = BP(a), BP(b)
    res.ev(1, nontrivial=1 if (a > 1 and b > 1) else 0, transitions=6)
    prod = (A * B).value
    if prod != P.mul(a, b):
        res.viol("poly", cfg, "ring-laws", f"{a}*{b} -> {prod} != {P.mul(a, b)}", [a, b])
    if (B * A).value != prod:
        res.viol("poly", cfg, "ring-laws", f"commutativity {a},{b}", [a, b])
    if b == 0:
        for name, f in (("mod", lambda: A % B), ("div", lambda: A.div(B))):
            try:
                r = f()
                res.viol("poly", cfg, "divmod", f"{name} by zero returned {r!r} for a={a}", [a, b])
            except (ValueError, ZeroDivisionError):
                res.rejected += 1
    else:
        qv, rv = A.div(B).value, (A % B).value
        if P.mul(qv, b) ^ rv != a or not (P.deg(rv) < P.deg(b)):
            res.viol("poly", cfg, "divmod", f"a={a} b={b}: q={qv} r={rv}", [a, b])
        if (A % B).degree != P.deg(rv) or A.degree != P.deg(a):
            res.viol("poly", cfg, "divmod", f"degree attribute wrong a={a} b={b}", [a, b])
    g = A.gcd(B).value
    gref = P.gcd(a, b)
    if g != gref:
        res.viol("poly", cfg, "gcd", f"gcd({a},{b}) -> {g} != {gref}", [a, b])
    else:
        if g and (P.mod(a, g) or P.mod(b, g)):
            res.viol("poly", cfg, "gcd", f"gcd({a},{b})={g} does not divide", [a, b])
    l = A.lcm(B).value
    if P.mul(l, g if (a and b) else 0) != (prod if (a and b) else 0) or l != P.lcm(a, b):
        res.viol("poly", cfg, "lcm", f"lcm({a},{b}) -> {l}, gcd {g}, product {prod}", [a, b])
    res.outcome(("g", g))


def execute(p, res):
    kind = p["kind"]
    BP = _BP()
    if kind == "pairs":
        cfg = "-"
        N = 1 << p["nb"]
        for a in range(p["blk"], N, p["nblocks"]):
            for b in range(N):
                _poly_pair(res, BP, a, b, cfg)
            # results are values: the objects returned for every b (with ONE left operand object) are re-read after all calls were made
            A1 = BP(a)
            kept = []
            for b in range(1, N):
                B1 = BP(b)
                kept.append((b, B1, A1 * B1, A1 % B1, A1.gcd(B1), A1.div(B1), A1.lcm(B1)))
            for b, B1, pr, md, gc, qu, sm in kept:
                want = (P.mul(a, b), P.mod(a, b), P.gcd(a, b), P.divmod2(a, b)[0], P.lcm(a, b))
                got = (pr.value, md.value, gc.value, qu.value, sm.value)
                if got != want or A1.value != a or B1.value != b:
                    res.viol("poly", cfg, "value-semantics", f"a={a}, b={b}: results (product, remainder, gcd, quotient, lcm) read {got} after later calls, expected {want}; operands now read ({A1.value}, {B1.value})", [a, b])
                    break
            # unary
            A = BP(a)
            if A.derivative().value != P.derivative(a):
                res.viol("poly", cfg, "ring-laws", f"derivative({a})", [a])
            cl = A.to_coefficient_list()
            if sum(int(c) << i for i, c in enumerate(cl)) != a:
                res.viol("poly", cfg, "ring-laws", f"to_coefficient_list({a}) = {cl}", [a])
        res.sample({"a": p["blk"], "b": 3, "checked": "a == div(a,b)*b ^ (a%b), deg r < deg b, gcd, lcm*gcd == a*b"})
    elif kind == "triples":
        cfg = "-"
        N = 1 << p["nt"]
        for a in range(p["blk"], N, p["nblocks"]):
            A = BP(a)
            for b in range(N):
                B = BP(b)
                AB = A * B
                for c in range(N):
                    C = BP(c)
                    res.ev(1, nontrivial=1 if min(a, b, c) > 1 else 0, transitions=5)
                    if (AB * C).value != (A * (B * C)).value:
                        res.viol("poly", cfg, "ring-laws", f"associativity {a},{b},{c}", [a, b, c])
                    if (A * BP(b ^ c)).value != (AB.value ^ (A * C).value):
                        res.viol("poly", cfg, "ring-laws", f"distributivity {a},{b},{c}", [a, b, c])
        res.sample({"triple": [p["blk"], 2, 3], "checked": "(ab)c == a(bc), a(b+c) == ab+ac"})
    elif kind == "large":
        cfg = "structured"
        fam = []
        for d in (9, 17, 31, 32, 33, 63, 64, 65, 100, 127, 128, 199, 200):
            fam += [1 << d, (1 << d) | 1, (1 << (d + 1)) - 1, int("10" * (d // 2 + 1), 2) & ((1 << (d + 1)) - 1) | (1 << d)]
        fam = sorted(set(fam))[:40] + [0, 1, 2, 3]
        for a in fam:
            for b in fam:
                _poly_pair(res, BP, a, b, cfg)
        res.sample({"family_size": len(fam), "max_degree": max(P.deg(x) for x in fam)})
    elif kind == "modulus":
        _modulus(p["m"], res)
    elif kind == "fpairs":
        _fpairs(p, res)
    elif kind == "ftriples":
        _ftriples(p, res)
    elif kind == "felems":
        _felems(p, res)
    elif kind == "faccessors":
        _faccessors(p, res)
    elif p["kind"] == "crossfield":
        _crossfield(p, res)


def _crossfield(p, res):
    m1 = p["m1"]
    F1 = _field(m1)
    R1 = Field(m1, F1.modulus.value)
    BP = _BP()
    for m2 in range(1, 9):
        if m2 == m1:
            continue
        F2 = _field(m2)
        R2 = Field(m2, F2.modulus.value)
        cfg = f"m1={m1},m2={m2}"
        lim = min(F1.size, F2.size)
        for v_ in range(lim):
            try:
                a1, a2 = F1(v_), F2(v_)
                obs = []
                for (A, R) in ((a1, R1), (a2, R2), (a1, R1)):
                    mp = A.minimal_polynomial().value if v_ else None
                    ev_ = BP(0b1011011).evaluate(A).value
                    obs.append((mp, ev_, [c.value for c in A.conjugates()], (A ** 5).value, A.trace()))
                    want = (R.minpoly(v_) if v_ else None, R.eval_poly(0b1011011, v_), None, R.pow(v_, 5), R.trace(v_))
                    res.ev(1, nontrivial=1, transitions=5)
                    if obs[-1][0] != want[0] or obs[-1][1] != want[1] or obs[-1][3] != want[3] or obs[-1][4] != want[4]:
                        res.viol("gf", cfg, "minpoly" if obs[-1][0] != want[0] else "field-laws", f"value {v_} looked at in GF(2^{m1}) and GF(2^{m2}) in turn: in GF(2^{R.m if hasattr(R, 'm') else '?'}) "
                                 f"(minimal polynomial, p(a), a^5, trace) = {(obs[-1][0], obs[-1][1], obs[-1][3], obs[-1][4])}, reference {(want[0], want[1], want[3], want[4])}", [v_])
                        raise StopIteration
                if obs[0] != obs[2]:
                    res.viol("gf", cfg, "field-laws", f"value {v_}: the answers in GF(2^{m1}) differ before and after the same questions were asked in GF(2^{m2})", [v_])
                    raise StopIteration
            except StopIteration:
                break
            except Exception as e:  # noqa: BLE001
                res.viol("gf", cfg, "raises", f"value {v_} looked at in GF(2^{m1}) then GF(2^{m2}): {type(e).__name__}: {str(e)[:160]}", [v_])
                break
    res.sample({"m1": m1})


def _faccessors(p, res):
    """the field-level entry points next to the element methods: the table of all minimal polynomials, the element list, zero / one, element <->
    polynomial conversion, equality and hashing"""
    m = p["m"]
    cfg = f"m={m}"
    F = _field(m)
    R = Field(m, F.modulus.value)
    N = 1 << m
    v = lambda clause, d, f=None: res.viol("gf", cfg, clause, d, f)  # noqa: E731
    try:
        tab = F.get_minimal_polynomials()
        tab2 = F.get_minimal_polynomials()
    except Exception as e:  # noqa: BLE001
        v("raises", f"get_minimal_polynomials(): {type(e).__name__}: {str(e)[:160]}")
        tab = tab2 = None
    if tab is not None:
        res.ev(N - 1, nontrivial=N - 1, transitions=2)
        if sorted(tab) != list(range(1, N)):
            v("minpoly", f"get_minimal_polynomials() has keys {sorted(tab)[:6]}... ({len(tab)} entries), expected every non-zero element 1..{N - 1}")
        else:
            for a in range(1, N):
                got, ref = tab[a].value, R.minpoly(a)
                if got != ref or tab2[a].value != ref or F(a).minimal_polynomial().value != ref:
                    v("minpoly", f"get_minimal_polynomials()[{a}] = {bin(got)}, element.minimal_polynomial() = {bin(F(a).minimal_polynomial().value)}, product over the conjugates = {bin(ref) if ref is not None else None}", [a])
                    break
    els = F.get_all_elements()
    res.ev(N, transitions=1)
    if sorted(e.value for e in els) != list(range(N)):
        v("field-laws", f"get_all_elements() yields values {sorted(e.value for e in els)[:8]}... ({len(els)} elements)")
    zero = F.zero() if callable(F.zero) else F.zero
    one_ = F.one() if callable(F.one) else F.one
    if zero.value != 0 or one_.value != 1 or (one_ * one_).value != 1 or (zero + one_).value != 1:
        v("field-laws", f"zero = {zero.value}, one = {one_.value}")
    for a in range(N):
        A = F(a)
        if A.to_polynomial().value != a:
            v("field-laws", f"F({a}).to_polynomial() = {A.to_polynomial().value}", [a])
            break
        if not (A == F(a)) or hash(A) != hash(F(a)) or (a + 1 < N and A == F(a + 1)):
            v("field-laws", f"equality / hash of element {a} inconsistent", [a])
            break
    if m >= 2 and F(1) == _field(m - 1)(1) and not (F == _field(m - 1)):
        pass    # elements of different fields comparing equal is not covered by the statement
    res.sample({"m": m, "table_entries": N - 1})


def _field(m):
    from kaira.models.fec.algebra import FiniteBifield
    return FiniteBifield(m)


def _modulus(m, res):
    cfg = f"m={m}"
    F = _field(m)
    mod = F.modulus.value
    res.ev(1, transitions=2)
    if F.size != 1 << m or F.m != m:
        res.viol("gf", cfg, "field-laws", f"size {F.size}")
    if P.deg(mod) != m or not P.is_irreducible(mod):
        res.viol("gf", cfg, "irreducible", f"modulus {bin(mod)} of degree {P.deg(mod)} factors as {[bin(f) for f in P.factor(mod)]}")
    # primitive element: explicit walk with kaira's own multiplication
    al = F.primitive_element()
    v, n = al, 1
    lim = (1 << m) + 2
    one = 1
    if m == 1:
        # GF(2): the only unit is 1, order 1 == 2^1 - 1
        pass
    while v.value != one and n < lim:
        v = v * al
        n += 1
    res.ev(n, nontrivial=n, transitions=n)
    res.outcome((m, n))
    if v.value != 1 or n != (1 << m) - 1:
        res.viol("gf", cfg, "primitive-order", f"order walk of primitive_element()={al.value} ends at step {n} with value {v.value}; expected order {(1 << m) - 1}")
    # GF(2^m) asked for twice is one field: elements obtained through two separate FiniteBifield(m) calls combine under every operation (closure)
    # and compare as the values they are
    F2 = _field(m)
    R = Field(m, mod)
    N = 1 << m
    vals = sorted({x % N for x in (0, 1, 2, 3, 5, N - 1, N // 2, N // 3 + 1, 0x5A5A, 0x1234)})
    try:
        if not (F == F2) or (F != F2):
            res.viol("gf", cfg, "field-laws", f"FiniteBifield({m}) == FiniteBifield({m}) is False")
        for a in vals:
            for b in vals:
                A, B = F(a), F2(b)
                res.ev(1, nontrivial=1, transitions=3)
                got = ((A + B).value, (A * B).value, (A == B), (B * A).value)
                want = (a ^ b, R.mul(a, b), a == b, R.mul(a, b))
                if b:
                    got += ((A * B.inverse()).value,)
                    want += (R.mul(a, R.pow(b, N - 2)),)
                if got != want:
                    res.viol("gf", cfg, "field-laws", f"elements {a} and {b} from two FiniteBifield({m}) calls: (a+b, a*b, a==b, b*a, a*b^-1) = {got}, expected {want}", [a, b])
                    raise StopIteration
    except StopIteration:
        pass
    except Exception as e:  # noqa: BLE001
        res.viol("gf", cfg, "field-laws", f"combining elements obtained through two FiniteBifield({m}) calls: {type(e).__name__}: {str(e)[:160]}")
    res.sample({"m": m, "modulus": bin(mod), "walk_steps": n})


def _fpairs(p, res):
    m = p["m"]
    cfg = f"m={m}"
    F = _field(m)
    R = Field(m, F.modulus.value)
    N = 1 << m
    for a in range(p["blk"], N, p["nblocks"]):
        A = F(a)
        for b in range(N):
            B = F(b)
            res.ev(1, nontrivial=1 if (a > 1 and b > 1) else 0, transitions=3)
            pr = A * B
            if not (0 <= pr.value < N):
                res.viol("gf", cfg, "field-laws", f"closure {a}*{b} -> {pr.value}", [a, b])
            if pr.value != R.mul(a, b):
                res.viol("gf", cfg, "field-laws", f"{a}*{b} -> {pr.value} != {R.mul(a, b)}", [a, b])
            if (B * A).value != pr.value:
                res.viol("gf", cfg, "field-laws", f"commutativity {a},{b}", [a, b])
            if a and b and pr.value == 0:
                res.viol("gf", cfg, "field-laws", f"zero divisors {a},{b}", [a, b])
            if (A + B).value != a ^ b:
                res.viol("gf", cfg, "field-laws", f"addition {a},{b}", [a, b])
            if not (pr == F(pr.value)) or (pr != F(pr.value)):
                res.viol("gf", cfg, "field-laws", f"equality of equal elements {a},{b}", [a, b])
        if (A * F(1)).value != a or (F(1) * A).value != a or (A + F(0)).value != a or (A + A).value != 0:
            res.viol("gf", cfg, "field-laws", f"identities for {a}", [a])
    res.sample({"m": m, "pair": [p["blk"], 3], "checked": "closure, product == reference, commutativity, no zero divisors"})


def _ftriples(p, res):
    m = p["m"]
    cfg = f"m={m}"
    F = _field(m)
    N = 1 << m
    for a in range(p["blk"], N, p["nblocks"]):
        A = F(a)
        for b in range(N):
            B = F(b)
            AB = A * B
            for c in range(N):
                C = F(c)
                res.ev(1, nontrivial=1 if min(a, b, c) > 1 else 0, transitions=5)
                if (AB * C).value != (A * (B * C)).value:
                    res.viol("gf", cfg, "field-laws", f"associativity {a},{b},{c}", [a, b, c])
                if (A * (B + C)).value != (AB + A * C).value:
                    res.viol("gf", cfg, "field-laws", f"distributivity {a},{b},{c}", [a, b, c])
    res.sample({"m": m, "triple": [p["blk"], 2, 3]})


def _structured(m):
    n = (1 << m) - 1
    divs = [d for d in range(1, 64) if n % d == 0]
    idx = sorted(set(divs + [n // d for d in divs if n // d < 64] + [1, 2, 3, 5, 7, 11, 13]))
    return idx


def _felems(p, res):
    m = p["m"]
    cfg = f"m={m}"
    F = _field(m)
    mod = F.modulus.value
    R = Field(m, mod)
    N = 1 << m
    irreducible = P.is_irreducible_fast(mod) and P.deg(mod) == m
    if p["full"]:
        elems = list(range(p["blk"], N, p["nblocks"]))
        exps = list(range(0, min(N + 2, 70))) + [N - 2, N - 1, N, N + 1]
    else:
        al = R.pow(2, 1)
        elems = sorted(set([0, 1] + [R.pow(2, i) for i in _structured(m)] + [R.pow(2, (N - 1) // d) for d in _structured(m) if (N - 1) % d == 0]))
        exps = [0, 1, 2, 3, 5, N - 2, N - 1, N, N + 1]
    held = []        # results are VALUES: every result object is looked at again after all other calls have been made
    for a in elems:
        A = F(a)
        res.ev(1, nontrivial=1 if a > 1 else 0, transitions=len(exps) + 5)
        if len(held) < 4096:
            try:
                held.append((a, A.conjugates(), A * A, A + F(1), (A ** 3)))
            except Exception:  # noqa: BLE001  (reported by the clauses below)
                pass
        # power == repeated product (by the reference built on kaira's modulus)
        for e in exps:
            pv = (A ** e).value
            if pv != R.pow(a, e):
                res.viol("gf", cfg, "pow", f"{a}**{e} -> {pv} != {R.pow(a, e)}", [a, e])
                break
        # inverse
        if a == 0:
            try:
                r = A.inverse()
                res.viol("gf", cfg, "inverse", f"inverse(0) returned {r!r}", [a])
            except (ValueError, ZeroDivisionError):
                res.rejected += 1
        else:
            inv = A.inverse()
            if (A * inv).value != 1:
                res.viol("gf", cfg, "inverse", f"{a} * inverse({a})={inv.value} -> {(A * inv).value}", [a])
        # conjugates == Frobenius orbit
        cj = [c.value for c in A.conjugates()]
        if cj != R.conjugates(a):
            res.viol("gf", cfg, "conjugates", f"conjugates({a}) -> {cj[:6]} != {R.conjugates(a)[:6]}", [a])
        # trace == sum of a^(2^i), in {0,1}
        tr = A.trace()
        tref = R.trace(a)
        if tr not in (0, 1) or (irreducible and tr != tref) or (not irreducible and tref in (0, 1) and tr != tref):
            res.viol("gf", cfg, "trace", f"trace({a}) -> {tr}, sum of conjugate powers = {tref}", [a])
        # minimal polynomial (skip the 2^d search for long orbits outside the full range – cost 2^d * d evaluations)
        if len(cj) <= 10 and irreducible:
            mp = A.minimal_polynomial().value
            ref = R.minpoly(a)
            if mp != ref:
                res.viol("gf", cfg, "minpoly", f"minimal_polynomial({a}) -> {bin(mp)} != prod(X-conj) = {bin(ref) if ref is not None else None}", [a])
            elif not P.is_irreducible_fast(mp) and mp != 2 or R.eval_poly(mp, a) != 0 or P.deg(mp) != len(R.conjugates(a)):
                res.viol("gf", cfg, "minpoly", f"minimal_polynomial({a}) = {bin(mp)} not irreducible / not vanishing / wrong degree", [a])
            ev = A.minimal_polynomial().evaluate(A)
            if getattr(ev, "value", ev) != 0:
                res.viol("gf", cfg, "minpoly", f"minimal_polynomial({a}).evaluate(a) -> {getattr(ev, 'value', ev)}", [a])
            res.outcome((m, mp))
    for a, cj_obj, sq, plus1, cube in held:
        got = ([c.value for c in cj_obj], sq.value, plus1.value, cube.value)
        want = (R.conjugates(a), R.mul(a, a), a ^ 1, R.pow(a, 3))
        if got != want:
            which = ["conjugates", "product", "sum", "power"][[g != w for g, w in zip(got, want)].index(True)]
            res.viol("gf", cfg, "value-semantics", f"the {which} result obtained for element {a} reads {str(got[[g != w for g, w in zip(got, want)].index(True)])[:60]} after later calls on other elements; "
                     f"it was / should be {str(want[[g != w for g, w in zip(got, want)].index(True)])[:60]}", [a])
            break
    # trace additivity on the explored set (pairs with a fixed partner)
    if irreducible:
        for a in elems[:64]:
            for b in elems[:64]:
                if F(a ^ b).trace() != (F(a).trace() ^ F(b).trace()):
                    res.viol("gf", cfg, "trace", f"trace not additive at {a},{b}", [a, b])
                    break
    res.sample({"m": m, "elements": elems[:5], "n_elements": len(elems)})


# ----------------------------------------------------------------------------- life-cycle equivalence of the components behind this property
# (deep copy / pickle / state_dict / eval-train / cast round trip / no_grad ... leave the behaviour unchanged; shared helper kmc/lifecycle.py)
_cases1, _execute1, _component1 = cases, execute, component_of


def cases(tier, seed):  # noqa: F811
    yield from _cases1(tier, seed)
    yield f"{PID}|lifecycle", {"kind": "lifecycle", "tier": tier}


def execute(p, res):  # noqa: F811
    if p.get("kind") == "lifecycle":
        from kmc import lifecycle
        return lifecycle.run(PID, res)
    return _execute1(p, res)


def component_of(p):  # noqa: F811
    return "lifecycle" if p.get("kind") == "lifecycle" else _component1(p)
