"""C03 – advertised (n, k, d) and cyclic structure are the true parameters of the produced code (E1)."""
from math import comb

from kmc import catalogue as C
from kmc.props.c01 import construct
from kmc.ref import gf2
from kmc.ref import poly2 as P

PID = "C03"
ENGINE = "kmc-E1-space"
RULE = ("every named-family configuration of the catalogue; the code is the span of what the encoder outputs (all messages for k<=12, "
        "unit messages above); true distance exact by codeword enumeration (k<=22/26) or dual weight distribution + MacWilliams; "
        "a state is one codeword examined; non-trivial = configuration with k<n")
ASSUME = ["GF(2) reference kmc/ref/gf2.py incl. MacWilliams transform (self-tested on Hamming/Golay/simplex enumerators)"]
HORIZON = {"quick": 240, "thorough": 3600}
FAMS = ["hamming", "golay", "repetition", "spc", "rm", "cyclic", "bch", "rs"]
PER_CASE = {"cyclic": 24, "hamming": 12, "bch": 4, "rs": 8, "rm": 3, "golay": 2, "*": 6}


def bounds(tier):
    return {"families": FAMS, "exact_distance_limit_min(k,n-k)": 22 if tier == "quick" else 26,
            "hamming_mu": "2..4" if tier == "quick" else "2..6", "bch_mu": "2..4" if tier == "quick" else "2..6",
            "cyclic_n": "<=15" if tier == "quick" else "<=21", "rm_m": "<=4" if tier == "quick" else "<=6"}


def cases(tier, seed):
    for cid, specs in C.grouped(tier, seed, PER_CASE, families=[f for f in FAMS if f != "cyclic"], prefix="C03|"):
        yield cid, {"specs": specs, "tier": tier}
    # cyclic codes: every configuration of one length lives in ONE process and is visited in catalogue order and then (fresh objects) in
    # reverse order, so that state shared between instances (class-level caches keyed too coarsely) is exposed deterministically
    byn = {}
    for spec in C.cyclic(tier, seed):
        byn.setdefault(spec[2].get("n", spec[2].get("name")), []).append(spec)
    for n, specs in byn.items():
        sel = [s_ for s_ in specs if s_[2].get("form", "g") == "g"]
        yield f"C03|cyclic|n={n}", {"specs": specs, "then_fresh": list(reversed(sel)), "tier": tier}
    if tier == "quick":
        # lengths beyond 15 in the quick tier as well: n = 17 (8 divisors) and the divisors of X^21+1 with min(k, n-k) <= 9, every constructor form
        # (generator / check / both) in ONE process per length, forwards and (fresh objects) backwards
        for n_ in (17, 21):
            sp = [s_ for s_ in C.cyclic("thorough", seed) if s_[2].get("n") == n_ and min(P.deg(s_[2]["g"]), n_ - P.deg(s_[2]["g"])) <= 9]
            sel = [s_ for s_ in sp if s_[2].get("form", "g") == "g"]
            yield f"C03|cyclic|n={n_}", {"specs": sp, "then_fresh": list(reversed(sel)), "tier": tier}
        # the larger fields are cheap for this property (one encoder + one distance computation per configuration): always include them
        extra = [s for s in C.bch("thorough", seed) if s[2].get("mu", 0) in (5, 6) or "(31," in s[1] or "(63," in s[1]]
        extra += [s for s in C.rs("thorough", seed) if s[2]["mu"] == 4]
        for i in range(0, len(extra), 6):
            yield f"C03|{extra[i][0]}|x{i // 6:03d}|{extra[i][1]}..", {"specs": extra[i:i + 6], "tier": tier}


def component_of(p):
    return p["specs"][0][0]


def advertised(enc):
    out = {}
    md = getattr(enc, "minimum_distance", None)
    if md is not None:
        out["d"] = int(md() if callable(md) else md)
    if hasattr(enc, "delta"):
        out["delta"] = int(enc.delta)
    if hasattr(enc, "error_correction_capability"):
        out["t"] = int(enc.error_correction_capability)
    return out


def execute(p, res):
    for spec in p["specs"]:
        check(spec, p["tier"], res)
    if p.get("then_fresh"):
        from kmc.engine import fresh_kaira
        fresh_kaira()
        for spec in p["then_fresh"]:
            check(spec, p["tier"], res)


def check(spec, tier, res):
    import torch
    fam, cfg, prm = spec
    enc = construct(spec, res)
    if enc is None:
        return
    v = lambda clause, detail, focus=None: res.viol(fam, cfg, clause, detail, focus)  # noqa: E731
    n_adv, k_adv = int(enc.code_length), int(enc.code_dimension)
    # --- the produced code
    msgs = C.message_set(k_adv) if k_adv <= 12 else [1 << i for i in range(k_adv)]
    x = torch.tensor([gf2.bits(m, k_adv) for m in msgs], dtype=torch.float32)
    y = enc(x)
    cws = C.tensor_to_ints(y)
    res.ev(len(msgs), nontrivial=1 if k_adv < n_adv else 0, transitions=1)
    if y.dim() != 2 or any(c is None for c in cws):
        v("dims", f"encoder output shape {tuple(y.shape)} / non-binary entries")
        return
    n_true = y.shape[1]
    basis, _ = gf2.rref(cws)
    k_true = len(basis)
    if k_adv <= 12 and len(set(cws)) != (1 << k_true):
        v("dims", f"encoder image has {len(set(cws))} words but spans dimension {k_true} (not linear)")
    if (n_adv, k_adv, int(enc.redundancy)) != (n_true, k_true, n_true - k_true):
        v("dims", f"advertised (n,k,r)=({n_adv},{k_adv},{enc.redundancy}) but the encoder produces an [{n_true},{k_true}] code")
    if abs(float(enc.code_rate) - k_true / n_true) > 1e-12:
        v("rate", f"code_rate={enc.code_rate} but k/n={k_true}/{n_true}")
    # --- a named standard code advertises its length and dimension in its name: "X(n,k)"
    if "name" in prm:
        import re
        mm = re.search(r"\((\d+),\s*(\d+)\)", prm["name"])
        if mm and (int(mm.group(1)), int(mm.group(2))) != (n_true, k_true):
            v("dims", f"create_standard_code('{prm['name']}') produces an [{n_true},{k_true}] code")
    # --- true minimum distance
    lim = 22 if tier == "quick" else 26
    d = gf2.min_distance(basis, n_true, limit=lim) if n_true <= 64 else None
    adv = advertised(enc)
    res.outcome((fam, n_true, k_true, d))
    if d is None:
        res.undecided += 1
        res.bump("distance_undecided")
    else:
        if "d" in adv:
            if d < adv["d"]:
                v("dmin>=adv", f"advertised minimum_distance={adv['d']} but true d={d} for the [{n_true},{k_true}] code")
            exact = fam in ("hamming", "golay", "repetition", "spc", "rm") or (fam == "cyclic" and k_true <= 12)
            if exact and d > adv["d"]:
                v("dmin==adv", f"documented exact minimum_distance={adv['d']} but true d={d}")
        if "delta" in adv and d < adv["delta"]:
            v("dmin>=adv", f"design distance delta={adv['delta']} but true d={d} for the [{n_true},{k_true}] code")
        if "t" in adv and 2 * adv["t"] + 1 > d:
            v("t", f"error_correction_capability={adv['t']} but true d={d}")
        if fam in ("hamming", "golay") and not prm.get("extended") and k_true == k_adv:
            t = (d - 1) // 2
            if (1 << k_true) * sum(comb(n_true, i) for i in range(t + 1)) != (1 << n_true):
                v("sphere", f"[{n_true},{k_true},{d}] code does not meet the sphere-packing bound with equality")
        if fam == "repetition" and d != n_true:
            v("dmin==adv", f"repetition code of length {n_true} has d={d}")
    # --- cyclic structure (contiguous layouts only)
    if fam in ("cyclic", "bch") and prm.get("info") in ("left", "right"):
        cyclic_structure(enc, basis, n_true, k_true, v, res)
    res.sample({"family": fam, "cfg": cfg, "n": n_true, "k": k_true, "true_d": d, "advertised": adv})


def rev(c, n):
    return int(format(c, f"0{n}b")[::-1], 2)


def cyclic_structure(enc, basis, n, k, v, res):
    g = int(enc.generator_poly.value)
    h = int(enc.check_poly.value)
    target = (1 << n) | 1
    res.ev(len(basis), nontrivial=len(basis), transitions=0)
    if P.mod(target, g) != 0:
        v("g|x^n+1", f"g={g:#b} does not divide x^{n}+1")
    if P.mul(g, h) != target:
        v("g|x^n+1", f"g*h={P.mul(g, h):#b} != x^{n}+1 (g={g:#b}, h={h:#b})")
    if P.deg(g) != n - k:
        v("multiples-of-g", f"deg g={P.deg(g)} but n-k={n - k}")
    R = gf2.rref(basis)
    mask = (1 << n) - 1
    bad = [c for c in basis if not gf2.in_span(((c << 1) & mask) | (c >> (n - 1)), R)]
    if bad:
        v("shift-closed", f"cyclic shift of codeword {gf2.bits(bad[0], n)} is not a codeword")
    nat = all(P.mod(c, g) == 0 for c in basis)
    rv = all(P.mod(rev(c, n), g) == 0 for c in basis)
    if not (nat or rv):
        c = next(c for c in basis if P.mod(c, g))
        v("multiples-of-g", f"codeword {gf2.bits(c, n)} is not a multiple of g={g:#b} (in natural nor in reversed coefficient order for the whole code)")


# ----------------------------------------------------------------------------- spelling equivalence of the constructors behind this property
# (positional / keyword / mixed spellings of one legal call configure the same object; shared helper kmc/spelling.py)
_cases0, _execute0, _component0 = cases, execute, component_of


def cases(tier, seed):  # noqa: F811
    yield from _cases0(tier, seed)
    yield f"{PID}|spelling", {"kind": "spelling", "tier": tier}
    yield f"{PID}|factories", {"kind": "factories", "tier": tier}


def execute(p, res):  # noqa: F811
    if p.get("kind") == "spelling":
        from kmc import spelling
        return spelling.run(PID, res)
    if p.get("kind") == "factories":
        return factories_case(p, res)
    return _execute0(p, res)


def component_of(p):  # noqa: F811
    return "spelling" if p.get("kind") == "spelling" else "factories" if p.get("kind") == "factories" else _component0(p)


# ----------------------------------------------------------------------------- named standard codes: the factory is a function of the name
def _code_of(enc):
    import torch
    k = int(enc.code_dimension)
    y = enc(torch.eye(k, dtype=torch.float32))
    rows = C.tensor_to_ints(y)
    return (int(enc.code_length), k, tuple(rows), tuple(sorted(gf2.rref(rows)[0])))     # the last entry is canonical for the CODE (row space)


def factories_case(p, res):
    """for every class offering named standard codes (BCH, Reed-Solomon, cyclic) and every name of length <= 31: the code produced for a name is
    the same before and after (i) other calls for the same name that override options (a scattered information set, 'right'), (ii) reads of the
    table returned by get_standard_codes(), (iii) calls for the other names - the advertised (n,k) of C03 is a property of the NAME"""
    import re
    import kaira.models.fec.encoders as E
    for cname in ("BCHCodeEncoder", "ReedSolomonCodeEncoder", "CyclicCodeEncoder"):
        cls = getattr(E, cname)
        if hasattr(cls, "get_standard_codes"):
            names = list(cls.get_standard_codes())
        else:
            names = ["Hamming(7,4)", "Simplex(7,3)", "BCH(15,7)", "BCH(15,5)", "Golay(23,12)"]
        names = [nm for nm in names if int(re.search(r"\((\d+),", nm).group(1)) <= 31]
        first = {}
        for nm in names:
            try:
                first[nm] = _code_of(cls.create_standard_code(nm))
            except Exception as e:  # noqa: BLE001
                res.viol("factories", f"{cname},{nm}", "raises", f"create_standard_code('{nm}'): {type(e).__name__}: {str(e)[:200]}")
        for nm, (n, k, G0, span0) in first.items():
            cfg = f"{cname},{nm}"
            # information sets other than the default: 'right', and scattered ones found greedily in two column orders
            overrides = [("information_set='right'", {"information_set": "right"})]
            for oname, order in (("odd-first", [c for c in range(n) if c % 2] + [c for c in range(n) if c % 2 == 0]), ("descending-by-3", sorted(range(n), key=lambda c: (-(c % 3), -c)))):
                R, chosen = [], []
                for c in order:
                    col = sum(((G0[r] >> (n - 1 - c)) & 1) << r for r in range(k))
                    red = col
                    for piv, vec in R:
                        if (red >> piv) & 1:
                            red ^= vec
                    if red:
                        R.append((red.bit_length() - 1, red))
                        chosen.append(c)
                    if len(chosen) == k:
                        break
                overrides.append((f"information_set={oname}", {"information_set": sorted(chosen)}))
            for oname, kw in overrides:
                try:
                    cls.create_standard_code(nm, **kw)
                except Exception:  # noqa: BLE001   (an override the class declines is not this clause's business)
                    res.rejected += 1
                if hasattr(cls, "get_standard_codes"):
                    cls.get_standard_codes()          # (reading the table; it is not edited - what a caller does to a returned table is theirs)
                try:
                    again = _code_of(cls.create_standard_code(nm))
                except Exception as e:  # noqa: BLE001
                    res.viol("factories", cfg, "name-determines-code", f"after create_standard_code('{nm}', {oname}), create_standard_code('{nm}') raises {type(e).__name__}: {str(e)[:160]}")
                    continue
                res.ev(k, nontrivial=1, transitions=3)
                if (again[0], again[1], again[3]) != (n, k, span0):
                    res.viol("factories", cfg, "name-determines-code", f"after create_standard_code('{nm}', {oname}), create_standard_code('{nm}') produces a different "
                             f"[{again[0]},{again[1]}] code: first row {gf2.bits(again[2][0], again[0])} instead of {gf2.bits(G0[0], n)}")
        # (iii) every name again after all the others
        for nm, want in first.items():
            try:
                if _code_of(cls.create_standard_code(nm))[3] != want[3]:
                    res.viol("factories", f"{cname},{nm}", "name-determines-code", f"create_standard_code('{nm}') after the other names produces a different code than at first")
            except Exception as e:  # noqa: BLE001
                res.viol("factories", f"{cname},{nm}", "name-determines-code", f"{type(e).__name__}: {str(e)[:160]}")
            res.ev(1, nontrivial=1, transitions=1)
        res.outcome((cname, len(first)))


# ----------------------------------------------------------------------------- life-cycle equivalence of the components behind this property
# (deep copy / pickle / state_dict / eval-train / cast round trip / no_grad ... leave the behaviour unchanged; shared helper kmc/lifecycle.py)
_cases1, _execute1, _component1 = cases, execute, component_of


def cases(tier, seed):  # noqa: F811
    yield from _cases1(tier, seed)
    yield f"{PID}|lifecycle", {"kind": "lifecycle", "tier": tier}


def execute(p, res):  # noqa: F811
    if p.get("kind") == "lifecycle":
        from kmc import lifecycle
        return lifecycle.run(PID, res)
    return _execute1(p, res)


def component_of(p):  # noqa: F811
    return "lifecycle" if p.get("kind") == "lifecycle" else _component1(p)
