"""C06 – hard decisions are nearest-point; soft outputs are correctly signed, scaled max-log LLRs (E1)."""
import cmath
import math

from kmc import modcat as MC

PID = "C06"
ENGINE = "kmc-E1-space"
RULE = ("every scheme/order/option x received points on a deterministic dense set (grid over 1.5x the bounding box, every constellation "
        "point, both sides of every nearest-neighbour decision boundary, far points) x six decades of noise variance given as float, 0-d "
        "tensor and per-symbol tensor x layouts 1-D and (B,N); differential / alternating schemes on their decision variable; a state is "
        "one (scheme, received point, sigma^2 form) evaluation; non-trivial = point not equidistant (|d1^2-d0^2| > 1e-3)")
ASSUME = ["float64 reference modem kmc/modcat.py over the scheme's PUBLISHED constellation and labels (their bijectivity is C14)",
          "LLR tolerance 1e-4*(d0^2+d1^2)+1e-6 relative to the float32 magnitudes actually subtracted"]
HORIZON = {"quick": 240, "thorough": 2400}
SIGMAS = [1e-3, 1e-2, 1e-1, 1.0, 10.0, 100.0]


def bounds(tier):
    return {"grid": "33x33 (17x17 for M-PSK soft)" if tier == "quick" else "129x129 (33x33 for M-PSK soft)", "noise_variances": SIGMAS,
            "noise_var_forms": ["float", "0-d tensor", "per-symbol tensor"]}


def cases(tier, seed):
    # one case per (scheme, order): all option combinations of that family are instantiated and used in ONE process, first in
    # catalogue order and then again (fresh instances) in reverse order, so that state shared between differently configured
    # instances (class-level / module-level caches) shows up deterministically, whatever worker runs the case
    groups = {}
    for spec in MC.schemes(tier, with_registry=False):
        if spec[0] == "identity":
            continue
        groups.setdefault((spec[0], spec[2].get("order", spec[2].get("bits_per_symbol"))), []).append(spec)
    for (scheme, order), specs in groups.items():
        yield f"C06|{scheme}|order={order}", {"specs": specs, "tier": tier}


def component_of(p):
    return p["specs"][0][0]


def execute(p, res):
    from kmc.engine import fresh_kaira
    for spec in p["specs"]:
        run_spec({"spec": spec, "tier": p["tier"]}, res)
    if len(p["specs"]) > 1:
        fresh_kaira()          # the reverse order starts from pristine module state as well
        for spec in reversed(p["specs"]):
            run_spec({"spec": spec, "tier": p["tier"]}, res)


def point_set(pts, g, real_only, offsets=(1e-3,)):
    xs = [p.real for p in pts]
    ys = [p.imag for p in pts]
    cx, cy = (max(xs) + min(xs)) / 2, (max(ys) + min(ys)) / 2
    hw = max((max(xs) - min(xs)) / 2, (max(ys) - min(ys)) / 2, 0.5) * 1.5
    dm = MC.dmin(pts)
    out = []
    # irrational offsets keep grid points off exact decision boundaries
    for i in range(g):
        for j in range(g if not real_only else 3):
            x = cx - hw + (2 * hw) * (i + 0.4142) / g
            y = (cy - hw + (2 * hw) * (j + 0.3183) / g) if not real_only else (0.0, 0.37, -1.3)[j]
            out.append(complex(x, y))
    out += [p * (1 + 1e-3) + 1e-3 * dm * complex(0.6, 0.3) for p in pts]          # (almost) on every constellation point
    for i, a in enumerate(pts):                                                   # both sides of every nearest-neighbour boundary
        for b in pts[:i]:
            if abs(a - b) <= (1 + 1e-4) * dm:
                mid, d = (a + b) / 2, (a - b) / abs(a - b)
                out += [mid + s_ * f_ * dm * d for f_ in offsets for s_ in (1, -1)]        # (1e-5 dmin: still 100 float32 ulps from the boundary)
    R = max(abs(p) for p in pts) * 10
    out += [R * cmath.exp(1j * (0.1 + 2 * math.pi * k / 16)) for k in range(16)]
    return out


def tie_points(pts, real_only):
    """points EXACTLY on decision boundaries (any nearest point is an acceptable decision, a far one is not): midpoints of all nearest-neighbour
    pairs, and - for constellations symmetric about an axis - points with real or imaginary part exactly 0"""
    dm = MC.dmin(pts)
    out = []
    for i, a in enumerate(pts):
        for b in pts[:i]:
            if abs(a - b) <= (1 + 1e-4) * dm:
                out.append((a + b) / 2)
    xs = sorted({round(p.real, 9) for p in pts})
    ys = sorted({round(p.imag, 9) for p in pts})
    if all(-x in xs for x in xs) and 0.0 not in xs:
        out += [complex(0.0, y) for y in (ys if not real_only else [0.0])] + [complex(0.0, 0.37 * dm)]
    if not real_only and all(-y in ys for y in ys) and 0.0 not in ys:
        out += [complex(x, 0.0) for x in xs] + [complex(0.37 * dm, 0.0), 0j]
    return out


def run_spec(p, res):
    import torch
    spec = p["spec"]
    scheme, cfg, prm = spec
    q = p["tier"] == "quick"
    kind = MC.KIND[scheme]
    mod, dem = MC.build(spec)
    pts, lab = MC.table(mod)
    if lab is None and scheme == "bpsk":
        lab = [(0,), (1,)]
    b = len(lab[0])
    g = (33 if q else 129)
    soft_g = (17 if q else 33) if scheme == "psk" else g
    real_only = scheme in ("bpsk", "pam")
    v = lambda clause, detail, focus=None: res.viol(scheme, cfg, clause, detail, focus)  # noqa: E731
    res.outcome((scheme, len(pts)))

    # ---------- how a received point is presented and which table decides it
    if kind == "alternating":
        tables = [[complex(c) for c in mod.qpsk.tolist()], [complex(c) for c in mod.qpsk_rotated.tolist()]]
    else:
        tables = [pts]

    def present(Y, layout):
        """-> (tensor for the demodulator, list of (row, col) of the symbols that carry Y, table index per Y)"""
        if kind == "differential":
            # pairs (y_prev, y_cur): decision variable z = y_cur * conj(y_prev) / |.|
            prev = [cmath.exp(1j * 0.3 * (i % 7)) * (0.5 + (i % 3)) for i in range(len(Y))]
            rows = [[pv, pv * y] for pv, y in zip(prev, Y)]
            t = torch.tensor(rows, dtype=torch.complex64)
            return t, None
        if kind == "alternating":
            # batched rows of 2 symbols: column 0 uses the plain, column 1 the rotated constellation
            if len(Y) % 2:
                Y = Y + Y[:1]
            t = torch.tensor([[Y[i], Y[i + 1]] for i in range(0, len(Y), 2)], dtype=torch.complex64)
            return t, None
        t = torch.tensor(Y, dtype=torch.complex64)
        if layout == "B,N":
            n2 = len(Y) // 2 * 2
            t = t[:n2].reshape(2, -1)
        return t, None

    def decision_points(Y):
        """reference-side view: list of (effective received point, table)"""
        if kind == "differential":
            out = []
            for y in Y:
                z = y / (abs(y) + 1e-9)
                out.append((z, tables[0]))
            return out
        if kind == "alternating":
            YY = Y + Y[:1] if len(Y) % 2 else Y
            return [(y, tables[i % 2]) for i, y in enumerate(YY)]
        if real_only or scheme == "bpsk":
            return [(complex(y.real, 0.0), tables[0]) for y in Y]
        return [(y, tables[0]) for y in Y]

    # ---------- hard decisions
    Yh = point_set(pts, g, real_only, (1e-3, 1e-4, 1e-5) if kind == "memoryless" else (1e-3,)) + (tie_points(pts, real_only) if kind == "memoryless" else [])
    for layout in (("1d", "B,N") if kind == "memoryless" or kind == "offset" else ("B,2",)):
        t, _ = present(Yh, layout)
        dps = decision_points(Yh)
        if layout == "B,N":
            dps = dps[:len(Yh) // 2 * 2]
        try:
            if hasattr(dem, "reset_state"):
                dem.reset_state()
            out = dem(t)
        except Exception as e:  # noqa: BLE001
            v("raises", f"hard demodulation layout {layout}: {type(e).__name__}: {str(e)[:200]}")
            continue
        res.transitions += 1
        bits = out.reshape(-1, b).tolist()
        if len(bits) != len(dps):
            v("nearest", f"layout {layout}: {len(dps)} decision points but {len(bits)} bit groups returned (shape {tuple(out.shape)})")
            continue
        nbad = 0
        for (y, tab), got in zip(dps, bits):
            res.ev(1, nontrivial=1, transitions=0)
            ok = MC.nearest_labels(y, tab, lab)
            if tuple(int(round(x)) for x in got) not in ok or any(x not in (0.0, 1.0) for x in got):
                nbad += 1
                if nbad == 1:
                    v("nearest", f"layout {layout}: received {y:.4f} decided {got}, nearest point(s) carry {sorted(ok)}", {"y": [y.real, y.imag]})
        if nbad:
            res.bump("wrong_hard_decisions", nbad)

    # ---------- one LONG call (the point set repeated to 2^15+3 points, 1-D and as 3 rows): every point is answered as in the short call
    if kind == "memoryless":
        t1, _ = present(Yh, "1d")
        # (2^15+3: an odd count beyond every power-of-two chunk; 24576 = 3*2^13 and 12288 = 3*2^12: EXACT multiples of chunk sizes of the form 3*2^j / order)
        for name, f, NL in (("hard", lambda z: dem(z), (1 << 15) + 3), ("hard", lambda z: dem(z), 24576), ("hard", lambda z: dem(z), 12288), ("soft", lambda z: dem(z, 0.7), (1 << 12) + 3)):
            if name == "soft" and len(pts) > 16:
                continue             # the library's soft path loops per bit and symbol: long inputs only for the small constellations
            reps = NL // t1.shape[0] + 1
            tl = t1.repeat(reps)[:NL]
            try:
                short = f(t1).reshape(t1.shape[0], -1).to(torch.float64)
                want = short.repeat(reps, 1)[:NL]
                for lay, tt in (("1d", tl), ("3,L", tl[: NL // 3 * 3].reshape(3, -1))):
                    got = f(tt).reshape(-1, short.shape[1]).to(torch.float64)
                    res.ev(int(got.shape[0]), nontrivial=int(got.shape[0]), transitions=1)
                    w = want[: got.shape[0]]
                    bad = (got != w) if name == "hard" else ((got - w).abs() > 1e-5 * (1 + w.abs()))
                    if got.shape != w.shape or bool(bad.any()):
                        i = int(bad.any(dim=1).nonzero()[0]) if got.shape == w.shape else 0
                        v("nearest" if name == "hard" else "llr-form", f"long input ({lay}, {tt.numel()} points): point {i} ({complex(tt.reshape(-1)[i]):.4f}) answered {got[i].tolist() if got.shape == w.shape else tuple(got.shape)}, "
                          f"the same point in a call of {t1.shape[0]} points is answered {w[i].tolist()}", {"layout": "long-" + lay})
                        break
            except Exception as e:  # noqa: BLE001
                v("raises", f"long input, {name} decisions: {type(e).__name__}: {str(e)[:160]}")
    # ---------- soft decisions
    Ys = point_set(pts, soft_g, real_only)
    dps = decision_points(Ys)
    ref = [[MC.maxlog(y, tab, lab, j) for j in range(b)] for (y, tab) in dps]
    scale2 = max(abs(c) for c in pts) ** 2
    cvals = []
    base = None
    for s2 in SIGMAS:
        for form in ("float", "0d", "per-symbol"):
            if form != "float" and s2 not in (1e-2, 10.0) and q:
                continue
            t, _ = present(Ys, "1d")
            if form == "float":
                nv = s2
            elif form == "0d":
                nv = torch.tensor(s2)
            else:
                shape = t.shape if kind != "differential" else (t.shape[0], 1)
                nv = torch.full(tuple(shape), s2)
            try:
                if hasattr(dem, "reset_state"):
                    dem.reset_state()
                t0_, nv0_ = t.clone(), (nv.clone() if form != "float" else None)
                out = dem(t, nv) if form != "float" else dem(t, noise_var=nv)
            except Exception as e:  # noqa: BLE001
                v("raises" if form != "per-symbol" else "per-symbol", f"soft demodulation sigma2={s2} ({form}): {type(e).__name__}: {str(e)[:200]}")
                continue
            res.transitions += 1
            # the received points and the noise variance are the caller's: a second call with the very same tensors must see the same values
            if not torch.equal(t, t0_) or (nv0_ is not None and not torch.equal(nv, nv0_)):
                v("llr-scaling", f"sigma2={s2} ({form}): the call modified its {'received points' if not torch.equal(t, t0_) else 'noise-variance tensor'} argument "
                  f"({'' if nv0_ is None else f'noise variance now {nv.reshape(-1)[0].item():.6g}'}): the next call with the same tensor is scaled differently")
                if nv0_ is not None:
                    nv.copy_(nv0_)
            llr = out.reshape(-1, b).to(torch.float64).tolist()
            if len(llr) != len(dps):
                v("llr-form", f"sigma2={s2} ({form}): {len(dps)} decision points but {len(llr)} LLR groups (shape {tuple(out.shape)})")
                continue
            # one positive constant c per scheme: estimate once at the first well-separated point
            if base is None:
                for L, R in zip(llr, ref):
                    for lj, (d0, d1) in zip(L, R):
                        if abs(d1 - d0) > 1e-2 * scale2 and base is None:
                            base = lj * s2 / (d1 - d0)
                if base is None or not (base > 0) or not math.isfinite(base):
                    v("llr-sign", f"LLR is not a positive multiple of (d1^2-d0^2)/sigma^2: estimated factor {base}")
                    res.sample({"scheme": scheme, "cfg": cfg, "c": base})
                    return
                cvals.append(base)
            nbad = 0
            for (y, tab), L, R in zip(dps, llr, ref):
                for j, (lj, (d0, d1)) in enumerate(zip(L, R)):
                    res.ev(1, nontrivial=1 if abs(d1 - d0) > 1e-3 * scale2 else 0, transitions=0)
                    want = base * (d1 - d0) / s2
                    tol = base * (1e-4 * (d0 + d1) + 1e-6) / s2
                    if not math.isfinite(lj) or abs(lj - want) > tol:
                        nbad += 1
                        if nbad == 1:
                            clause = "llr-form" if form == "float" else ("per-symbol" if form == "per-symbol" else "llr-form")
                            if s2 != SIGMAS[3] and form == "float" and abs(lj * s2 - base * (d1 - d0)) > tol * s2:
                                clause = "llr-scaling" if abs(lj - want) > tol and False else clause
                            v(clause, f"sigma2={s2} ({form}): received {y:.4f} bit {j}: LLR={lj:.6g}, expected c*(d1^2-d0^2)/sigma^2 = {base:.4g}*({d1:.5g}-{d0:.5g})/{s2} = {want:.6g}", {"y": [y.real, y.imag], "s2": s2, "bit": j})
            if nbad:
                res.bump("wrong_llrs", nbad)
    # per-symbol noise variances that DIFFER from symbol to symbol (1-D of N values, and a (2,N) batch with one row of variances broadcast /
    # a full (2,N) tensor): symbol i's LLRs are scaled by ITS variance
    t1, _ = present(Ys, "1d")
    if base is not None and t1.dim() == 1 and t1.shape[0] == len(dps) and kind != "differential":
        cyc = [0.05, 1.0, 10.0, 0.3, 2.5]
        N = t1.shape[0]
        s2s = [cyc[(3 * i + i // 5) % len(cyc)] for i in range(N)]
        nv1 = torch.tensor(s2s, dtype=torch.float32)
        forms = [("per-symbol-varying 1-D", t1, nv1, s2s)]
        t2 = torch.stack([t1, torch.flip(t1, [0])])
        forms.append(("per-symbol-varying (N,) on a (2,N) batch", t2, nv1, s2s + s2s[::1]))
        forms.append(("per-symbol-varying (2,N)", t2, torch.stack([nv1, torch.flip(nv1, [0])]), s2s + s2s))
        for fname, tt, nv, _ in forms:
            try:
                if hasattr(dem, "reset_state"):
                    dem.reset_state()
                out = dem(tt, nv)
            except Exception:  # noqa: BLE001
                res.rejected += 1      # declining a noise-variance layout is allowed
                continue
            res.transitions += 1
            llr = out.reshape(-1, b).to(torch.float64).tolist()
            if len(llr) != tt.numel():
                v("per-symbol", f"{fname}: {tt.numel()} symbols but {len(llr)} LLR groups (shape {tuple(out.shape)})")
                continue
            # row 0 is t1 with variances s2s; row 1 (if any) is t1 reversed, with the variances of that row of nv (broadcast: s2s; full: reversed)
            rows = [(list(range(N)), s2s)]
            if tt.dim() == 2:
                rows.append((list(range(N - 1, -1, -1)), s2s if nv.dim() == 1 else s2s[::-1]))
            if kind in ("alternating", "offset") and tt.dim() == 2:
                rows = rows[:1]        # the reversed row is another symbol stream for schemes with memory: only the first row has a reference
            nbad = 0
            for r, (idx, var) in enumerate(rows):
                for pos, (i, s2i) in enumerate(zip(idx, var)):
                    (y, tab), R = dps[i], ref[i]
                    L = llr[r * N + pos]
                    for j, (lj, (d0, d1)) in enumerate(zip(L, R)):
                        res.ev(1, nontrivial=1 if abs(d1 - d0) > 1e-3 * scale2 else 0, transitions=0)
                        want = base * (d1 - d0) / s2i
                        tol = base * (1e-4 * (d0 + d1) + 1e-6) / s2i
                        if not math.isfinite(lj) or abs(lj - want) > tol:
                            nbad += 1
                            if nbad == 1:
                                v("per-symbol", f"{fname}: symbol {pos} of row {r} (received {y:.4f}, its sigma2={s2i}) bit {j}: LLR={lj:.6g}, expected {want:.6g}", {"form": fname, "pos": pos, "bit": j})
    # alternating schemes: in training mode the demodulator carries the rotation state from call to call; after a block with an odd number
    # of symbols the next block is decided against the continued alternation (hard decisions nearest on that constellation)
    if kind == "alternating":
        try:
            d2 = MC.build(spec)[1]
            d2.train()
            d2.reset_state()
            d2(torch.tensor([[tables[0][0], tables[1][1], tables[0][2]]], dtype=torch.complex64))       # 3 symbols: state now 'rotated'
            blk = [tables[1][i % 4] * (1.0 + 0.05 * i) + 0.03 if i % 2 == 0 else tables[0][i % 4] * (1.0 - 0.04 * i) - 0.02j for i in range(6)]
            out = d2(torch.tensor([blk], dtype=torch.complex64)).reshape(-1, b).tolist()
            res.ev(6, nontrivial=6, transitions=2)
            for i, (y, got) in enumerate(zip(blk, out)):
                ok = MC.nearest_labels(y, tables[(i + 1) % 2], lab)
                if tuple(int(round(x)) for x in got) not in ok:
                    v("nearest", f"training mode, second block after a 3-symbol block: symbol {i} {y:.3f} decided {got}, nearest on the continued alternation {sorted(ok)}", {"stream": True})
                    break
        except Exception as e:  # noqa: BLE001
            v("raises", f"stream continuation: {type(e).__name__}: {str(e)[:160]}")
    # alternating schemes also accept an un-batched symbol vector for SOFT output (shape (N, 2)): same LLRs as the batched route
    if kind == "alternating" and base is not None:
        YY = Ys + Ys[:1] if len(Ys) % 2 else Ys
        for s2 in (1e-2, 1.0, 10.0):
            try:
                dem.reset_state()
                out = dem(torch.tensor(YY, dtype=torch.complex64), s2)
            except Exception as e:  # noqa: BLE001
                v("raises", f"un-batched soft demodulation: {type(e).__name__}: {str(e)[:160]}")
                break
            res.transitions += 1
            llr = out.reshape(-1, b).to(torch.float64).tolist()
            nbad = 0
            for (y, tab), L, R in zip(dps, llr, ref):
                for j, (lj, (d0, d1)) in enumerate(zip(L, R)):
                    res.ev(1, nontrivial=1, transitions=0)
                    want = base * (d1 - d0) / s2
                    if abs(lj - want) > base * (1e-4 * (d0 + d1) + 1e-6) / s2:
                        nbad += 1
                        if nbad == 1:
                            v("llr-form", f"un-batched 1-D input, sigma2={s2}: received {y:.4f} bit {j}: LLR={lj:.6g}, expected {want:.6g}", {"layout": "1d", "s2": s2})
    res.sample({"scheme": scheme, "cfg": cfg, "points_hard": len(Yh), "points_soft": len(Ys), "c": base})


# ----------------------------------------------------------------------------- spelling equivalence of the constructors behind this property
# (positional / keyword / mixed spellings of one legal call configure the same object; shared helper kmc/spelling.py)
_cases0, _execute0, _component0 = cases, execute, component_of


def cases(tier, seed):  # noqa: F811
    yield from _cases0(tier, seed)
    yield f"{PID}|spelling", {"kind": "spelling", "tier": tier}


def execute(p, res):  # noqa: F811
    if p.get("kind") == "spelling":
        from kmc import spelling
        return spelling.run(PID, res)
    return _execute0(p, res)


def component_of(p):  # noqa: F811
    return "spelling" if p.get("kind") == "spelling" else _component0(p)


# ----------------------------------------------------------------------------- life-cycle equivalence of the components behind this property
# (deep copy / pickle / state_dict / eval-train / cast round trip / no_grad ... leave the behaviour unchanged; shared helper kmc/lifecycle.py)
_cases1, _execute1, _component1 = cases, execute, component_of


def cases(tier, seed):  # noqa: F811
    yield from _cases1(tier, seed)
    yield f"{PID}|lifecycle", {"kind": "lifecycle", "tier": tier}


def execute(p, res):  # noqa: F811
    if p.get("kind") == "lifecycle":
        from kmc import lifecycle
        return lifecycle.run(PID, res)
    return _execute1(p, res)


def component_of(p):  # noqa: F811
    return "lifecycle" if p.get("kind") == "lifecycle" else _component1(p)
