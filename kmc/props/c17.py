"""C17 – pipelines run their stages in declared order, independent of thread timing (E3 + E2 + E1)."""
from itertools import product

from kmc import bfs, sched

PID = "C17"
ENGINE = "kmc-E3-sched + kmc-E2-bfs + kmc-E1-space"
RULE = ("ParallelModel: n=1..4 (quick) / 5 (thorough) gated branches x max_workers in {1..n, None} x EVERY feasible completion order (forced through gates on "
        "the real ThreadPoolExecutor, each schedule replayed twice) x {no aggregator, order-sensitive aggregator} x three ways of declaring the branches; "
        "Sequential/Configurable models: BFS over every add_step/remove_step/run history up to depth 4 (7) against a Python-list model; BranchingModel: BFS over every add/remove/get/default/run history up to depth 5 (7) against an ordered-dictionary model (state key = canonical state + set of operations applied); fixed pipelines "
        "(DeepJSCC, channel-code, Wyner-Ziv), branching (all 2^n condition assignments), feedback (1..5 rounds), multiple access (every assignment of "
        "users to encoder instances); a state is a schedule / a canonical model state / a configuration; non-trivial = schedule differs from declared order")
ASSUME = ["executor model: tasks start in submission order whenever fewer than max_workers are running (cross-checked against a TLA+ model with TLC in the thorough tier)",
          "scheduling points are task completions; unsynchronised accesses inside user branches are out of scope"]
HORIZON = {"quick": 300, "thorough": 2400}
INPROCESS_THREADS = True


def bounds(tier):
    q = tier == "quick"
    return {"parallel_branches": "1..4" if q else "1..5", "workers": "1..n and default", "history_depth": 4 if q else 7, "branching_history_depth": 5 if q else 7, "pipeline_stages": "0..6",
            "branching_conditions": "all 2^n, n<=4", "feedback_rounds": "1..5", "mac_users": "1..4"}


def cases(tier, seed):
    nmax = 4 if tier == "quick" else 5
    for n in range(1, nmax + 1):
        for w in list(range(1, n + 1)) + [None]:
            yield f"C17|parallel|n={n},w={w}", {"kind": "parallel", "n": n, "w": w, "tier": tier}
    yield "C17|parallel|n=12,structured-orders", {"kind": "parallel-many", "n": 12, "tier": tier}
    for cls in ("SequentialModel", "ConfigurableModel", "DeepJSCCModel"):
        yield f"C17|sequential|{cls}", {"kind": "seq-bfs", "cls": cls, "tier": tier}
    yield "C17|sequential|fixed-pipelines", {"kind": "fixed", "tier": tier}
    for n in range(1, 5):
        yield f"C17|branching|n={n}", {"kind": "branching", "n": n, "tier": tier}
    yield "C17|branching|histories", {"kind": "branching-bfs", "tier": tier}
    yield "C17|feedback", {"kind": "feedback", "tier": tier}
    for u in range(1, 5):
        yield f"C17|mac|users={u}", {"kind": "mac", "users": u, "tier": tier}
    yield "C17|wyner-ziv", {"kind": "wz", "tier": tier}
    if tier == "thorough":
        yield "C17|parallel|tlc-crosscheck", {"kind": "tlc", "tier": tier}


def component_of(p):
    return {"parallel": "parallel", "seq-bfs": "sequential", "fixed": "sequential", "branching": "branching", "branching-bfs": "branching", "feedback": "feedback", "mac": "mac", "wz": "wyner-ziv", "tlc": "parallel", "parallel-many": "parallel"}[p["kind"]]


def execute(p, res):
    {"parallel": parallel_case, "seq-bfs": seq_bfs_case, "fixed": fixed_case, "branching": branching_case, "branching-bfs": branching_bfs_case, "feedback": feedback_case,
     "mac": mac_case, "wz": wz_case, "tlc": tlc_case, "parallel-many": parallel_many_case}[p["kind"]](p, res)


# ----------------------------------------------------------------------------- parallel (E3)
def parallel_case(p, res):
    from kaira.models.generic.parallel import ParallelModel
    n, w = p["n"], p["w"]
    orders = sched.feasible_orders(n, w)
    decl = {
        "steps": lambda br, agg: ParallelModel(max_workers=w, steps=[(f"name{i}", b) for i, b in enumerate(br)], aggregator=agg),
        "branches": lambda br, agg: ParallelModel(max_workers=w, branches=list(br), aggregator=agg),
        "add_step": lambda br, agg: _added(ParallelModel(max_workers=w, aggregator=agg), br),
    }
    unsorted = ["zeta", "alpha", "mid", "beta", "omega", "gamma"]
    decl["steps-unsorted"] = lambda br, agg: ParallelModel(max_workers=w, steps=[(unsorted[i], b) for i, b in enumerate(br)], aggregator=agg)
    names = {"steps": [f"name{i}" for i in range(n)], "branches": [f"branch_{i}" for i in range(n)], "add_step": [f"step_{i}" for i in range(n)], "steps-unsorted": unsorted[:n]}
    fn = lambda i, x, *a, **k: ("res", i, x, a, tuple(sorted(k.items())))  # noqa: E731
    infeasible = 0
    for how, mk in decl.items():
        for agg_name, agg in (("none", None), ("list", lambda rs: list(rs))):
            cfg = f"n={n},w={w},{how},agg={agg_name}"
            v = lambda clause, d, f=None: res.viol("parallel", cfg, clause, d, f)  # noqa: E731
            for order in orders:
                obs = []
                for rep in range(2):
                    r = sched.play(lambda br: mk(br, agg), n, order, 7, args=("extra",), kwargs={"flag": 3}, fn=fn)
                    obs.append(r)
                r = obs[0]
                res.ev(1, nontrivial=1 if list(order) != sorted(order) else 0, transitions=2 * n, traces=2)
                if repr((obs[0]["result"], obs[0]["ends"], repr(obs[0]["exception"]))) != repr((obs[1]["result"], obs[1]["ends"], repr(obs[1]["exception"]))):
                    v("nondeterministic", f"schedule {order} replayed twice gave different observations: {obs[0]['result']} vs {obs[1]['result']}", {"order": list(order)})
                    continue
                if not r["feasible"]:
                    infeasible += 1
                    res.bump("schedules_infeasible_for_this_implementation")
                    if list(order) == list(range(n)):
                        v("raises", f"the declared order {order} could not be played: {r['exception']}")
                    continue
                if r["exception"] is not None:
                    v("raises", f"schedule {order}: {type(r['exception']).__name__}: {r['exception']}", {"order": list(order)})
                    continue
                if r["ends"] != list(order):
                    v("nondeterministic", f"harness could not force completion order {order} (observed {r['ends']})")
                    continue
                res.outcome(repr(r["result"])[:60])
                exp = [fn(i, 7, "extra", flag=3) for i in range(n)]
                if r["calls"] != [1] * n:
                    v("exactly-once", f"schedule {order}: branch call counts {r['calls']}", {"order": list(order)})
                starts = [e for e in r["log"] if e[0] == "start"]
                if any(e[2] != 7 or e[3] != ("extra",) or e[4] != (("flag", 3),) for e in starts):
                    v("args-forwarded", f"schedule {order}: a branch was not called with (input, 'extra', flag=3): {starts[:2]}")
                if agg is None:
                    got = r["result"]
                    if not isinstance(got, dict) or set(got) != set(names[how]) or any(got[nm] != exp[i] for i, nm in enumerate(names[how])):
                        v("name->result", f"completion order {order}: result {got} does not map every branch name to that branch's own result", {"order": list(order)})
                else:
                    if r["result"] != exp:
                        v("aggregator-order", f"completion order {order}: aggregator received {[t[1] for t in r['result']] if isinstance(r['result'], list) else r['result']} instead of results of branches 0..{n - 1} in declared order", {"order": list(order)})
    res.bump("schedules", len(orders) * 8)
    res.sample({"n": n, "max_workers": w, "feasible_orders": len(orders), "first": list(orders[0]), "last": list(orders[-1])})


def parallel_many_case(p, res):
    """12 branches (auto-named branch_0..branch_11 / step_0..step_11: names no longer sort like their indices); 12! orders cannot be enumerated,
    so a structured family of completion orders is played: identity, reversal, every rotation, evens-then-odds, odds-then-evens"""
    from kaira.models.generic.parallel import ParallelModel
    n = p["n"]
    orders = [tuple(range(n)), tuple(reversed(range(n)))] + [tuple((i + r) % n for i in range(n)) for r in range(1, n)]
    orders += [tuple(range(0, n, 2)) + tuple(range(1, n, 2)), tuple(range(1, n, 2)) + tuple(range(0, n, 2))]
    fn = lambda i, x, *a, **k: ("res", i, x)  # noqa: E731
    for how in ("branches", "add_step"):
        for agg_name, agg in (("none", None), ("list", lambda rs: list(rs))):
            cfg = f"n={n},w=None,{how},agg={agg_name}"
            mk = (lambda br: ParallelModel(branches=list(br), aggregator=agg)) if how == "branches" else (lambda br: _added(ParallelModel(aggregator=agg), br))
            names = [f"branch_{i}" if how == "branches" else f"step_{i}" for i in range(n)]
            for order in orders:
                r1 = sched.play(mk, n, order, 7, fn=fn)
                r2 = sched.play(mk, n, order, 7, fn=fn)
                res.ev(1, nontrivial=1, transitions=2 * n, traces=2)
                if repr(r1["result"]) != repr(r2["result"]) or not r1["feasible"] or r1["ends"] != list(order) or r1["exception"] is not None:
                    res.viol("parallel", cfg, "nondeterministic", f"schedule {order}: replay mismatch / not forced (ends {r1['ends']}, exception {r1['exception']})")
                    continue
                exp = [fn(i, 7) for i in range(n)]
                if agg is None:
                    got = r1["result"]
                    if not isinstance(got, dict) or set(got) != set(names) or any(got[nm] != exp[i] for i, nm in enumerate(names)):
                        res.viol("parallel", cfg, "name->result", f"completion order {order}: wrong name -> result mapping")
                elif r1["result"] != exp:
                    res.viol("parallel", cfg, "aggregator-order", f"completion order {order}: aggregator received results of branches {[t[1] for t in r1['result']]} instead of 0..{n - 1} in declared order", {"order": list(order)})
    res.sample({"n": n, "orders": len(orders)})


def _added(model, br):
    for b in br:
        model.add_step(b)
    return model


# ----------------------------------------------------------------------------- recording stages
class Sink:
    __slots__ = ("items",)

    def __init__(self):
        self.items = []


class Rec:
    """recording stage: appends (sid, input, args, kwargs) to the sink and returns input*16 + sid (order visible in the value)"""

    def __init__(self, sid, sink):
        self.sid = sid
        self.sink = sink

    def __call__(self, x, *args, **kwargs):
        self.sink.items.append((self.sid, _val(x), args, tuple(sorted(kwargs.items()))))
        return x * 16 + self.sid


def _val(x):
    try:
        return float(x.reshape(-1)[0]) if hasattr(x, "reshape") else x
    except Exception:  # noqa: BLE001
        return repr(x)


def seq_bfs_case(p, res):
    import kaira.models as KM
    from kaira.models.base import ConfigurableModel
    from kaira.models.generic.sequential import SequentialModel
    from kaira.channels.base import BaseChannel
    from kaira.constraints.base import BaseConstraint
    from kaira.models.base import BaseModel
    from kaira.models.deepjscc import DeepJSCCModel
    cls = {"SequentialModel": SequentialModel, "ConfigurableModel": ConfigurableModel, "DeepJSCCModel": DeepJSCCModel}[p["cls"]]
    depth = 4 if p["tier"] == "quick" else 7
    cfg = p["cls"]

    def module_stage(base, sid, sink):
        class R(base):
            def __init__(self):
                super().__init__()
                self.sid = sid

            def forward(self, x, *a, **k):
                sink.items.append((sid, _val(x), a, tuple(sorted(k.items()))))
                return x * 16 + sid
        return R()

    class Sys:
        def __init__(self):
            self.sink = Sink()
            if cls is DeepJSCCModel:
                # the declared pipeline encoder(11) -> constraint(12) -> channel(13) -> decoder(14) is the initial step list; it is edited like any other
                self.model = cls(module_stage(BaseModel, 11, self.sink), module_stage(BaseConstraint, 12, self.sink), module_stage(BaseChannel, 13, self.sink), module_stage(BaseModel, 14, self.sink))
                self.ref = [11, 12, 13, 14]
            else:
                self.model = cls()
                self.ref = []
            self.stage = {sid: Rec(sid, self.sink) for sid in (1, 2, 3)}      # ONE object per stage id: adding s1 twice puts the same object in twice
    ops = []
    for sid in (1, 2, 3):
        def add(s, sid=sid):
            r = s.model.add_step(s.stage[sid])
            s.ref.append(sid)
            return ("add", r is s.model)
        ops.append((f"add_step(s{sid})", add))
    for idx in (0, 1, 2, 5):
        def rem(s, idx=idx):
            ok = 0 <= idx < len(s.ref)
            try:
                s.model.remove_step(idx)
                raised = False
            except IndexError:
                raised = True
            if ok:
                s.ref.pop(idx)
            return ("remove", (ok, raised))
        ops.append((f"remove_step({idx})", rem))

    def run(s):
        del s.sink.items[:]
        s.ran = getattr(s, "ran", 0) + 1
        out = s.model(5, "a", k=2)
        return ("run", (out, list(s.sink.items)))
    ops.append(("run", run))

    def canon(s):
        # "has been run" is part of the state: a pipeline that memoises something at its first run must not hide behind state merging
        return (tuple(getattr(st, "sid", "?") for st in s.model.steps), min(getattr(s, "ran", 0), 1))

    def on_tr(names, s, obs):
        v = lambda clause, d: res.viol("sequential", cfg, clause, f"history {list(names)}: {d}", {"history": list(names)})  # noqa: E731
        if isinstance(obs, Exception):
            v("raises", f"{type(obs).__name__}: {obs}")
            return
        kind, val = obs
        if canon(s)[0] != tuple(s.ref):
            v("order", f"steps {canon(s)[0]} but the list model has {s.ref}")
        if kind == "remove":
            ok, raised = val
            if ok == raised:
                v("order", f"remove_step: index valid={ok} but IndexError raised={raised}")
        if kind == "add" and not val:
            v("order", "add_step did not return the model (method chaining)")
        if kind == "run":
            out, log = val
            exp = 5
            for sid in s.ref:
                exp = exp * 16 + sid
            if [e[0] for e in log] != s.ref:
                v("order" if sorted(e[0] for e in log) == sorted(s.ref) else "exactly-once", f"stages ran as {[e[0] for e in log]}, declared {s.ref}")
            elif out != exp:
                v("order", f"result {out}, fold over the declared stages gives {exp}")
            if any(e[2] != ("a",) or e[3] != (("k", 2),) for e in log):
                v("args-forwarded", f"extra arguments not forwarded to every stage: {log[:2]}")
            res.outcome(out)
    st = bfs.explore(Sys, ops, depth, canon, on_tr)
    res.ev(st["transitions"], nontrivial=st["transitions"], states=st["states"], transitions=st["transitions"])
    res.bump("bfs_states", st["states"])
    # constructor with 0..6 initial steps
    if cls is SequentialModel:
        for n in range(0, 7):
            sink = Sink()
            m = SequentialModel([Rec(i + 1, sink) for i in range(n)])
            out = m(3)
            res.ev(1, transitions=1)
            exp = 3
            for i in range(n):
                exp = exp * 16 + i + 1
            if [e[0] for e in sink.items] != list(range(1, n + 1)) or out != exp:
                res.viol("sequential", cfg, "order", f"pipeline of {n} stages ran {[e[0] for e in sink.items]} -> {out}")
        # two pipelines declared from the SAME list object, and the caller's list mutated afterwards: each pipeline keeps its own declaration
        for op in ("add_to_first", "remove_from_first", "mutate_callers_list", "reverse_callers_list"):
            sink = Sink()
            L = [Rec(1, sink), Rec(2, sink), Rec(3, sink)]
            m1, m2 = SequentialModel(L), SequentialModel(L)
            if op == "add_to_first":
                m1.add_step(Rec(4, sink))
            elif op == "remove_from_first":
                m1.remove_step(0)
            elif op == "mutate_callers_list":
                L.append(Rec(5, sink))
            else:
                L.reverse()
            del sink.items[:]
            out = m2(3)
            res.ev(1, nontrivial=1, transitions=2)
            if [e[0] for e in sink.items] != [1, 2, 3] or out != ((3 * 16 + 1) * 16 + 2) * 16 + 3:
                res.viol("sequential", cfg, "order", f"after '{op}' on a sibling pipeline / the caller's list, a pipeline declared as [1,2,3] ran {[e[0] for e in sink.items]}")
    res.sample({"class": p["cls"], "depth": depth, "states": st["states"], "transitions": st["transitions"]})


def fixed_case(p, res):
    import torch
    from kaira.channels.base import BaseChannel
    from kaira.constraints.base import BaseConstraint
    from kaira.models.base import BaseModel
    from kaira.models.channel_code import ChannelCodeModel
    from kaira.models.deepjscc import DeepJSCCModel
    from kaira.modulations.base import BaseDemodulator, BaseModulator
    sink = Sink()

    def mk(base, sid):
        class R(base):
            def __init__(self):
                super().__init__()
                self.sid = sid

            def forward(self, x, *a, **k):
                sink.items.append((sid, _val(x), a, tuple(sorted(k.items()))))
                return x * 16 + sid
        return R()
    x = torch.tensor([2.0], dtype=torch.float64)
    # DeepJSCC: encoder -> constraint -> channel -> decoder
    m = DeepJSCCModel(mk(BaseModel, 1), mk(BaseConstraint, 2), mk(BaseChannel, 3), mk(BaseModel, 4))
    del sink.items[:]
    out = m(x, "a", k=1)
    res.ev(1, nontrivial=1, transitions=1)
    if [e[0] for e in sink.items] != [1, 2, 3, 4] or float(out) != (((2 * 16 + 1) * 16 + 2) * 16 + 3) * 16 + 4:
        res.viol("sequential", "DeepJSCCModel", "order", f"stages ran {[e[0] for e in sink.items]} (1=encoder,2=constraint,3=channel,4=decoder), output {float(out)}")
    if any(e[2] != ("a",) or e[3] != (("k", 1),) for e in sink.items):
        res.viol("sequential", "DeepJSCCModel", "args-forwarded", "extra arguments not forwarded")
    # channel code: encoder(1) .. decoder(6); constraint(2) directly before or after the modulator(3)
    m = ChannelCodeModel(mk(BaseModel, 1), mk(BaseConstraint, 2), mk(BaseModulator, 3), mk(BaseChannel, 4), mk(BaseDemodulator, 5), mk(BaseModel, 6))
    del sink.items[:]
    out = m(x, k=1)
    res.ev(1, nontrivial=1, transitions=1)
    ran = [e[0] for e in sink.items]
    if ran not in ([1, 3, 2, 4, 5, 6], [1, 2, 3, 4, 5, 6]):
        res.viol("sequential", "ChannelCodeModel", "order" if sorted(ran) == [1, 2, 3, 4, 5, 6] else "exactly-once",
                 f"stages ran {ran} (1=encoder,2=constraint,3=modulator,4=channel,5=demodulator,6=decoder)")
    exp = 2.0
    for sid in ran:
        exp = exp * 16 + sid
    if float(out) != exp:
        res.viol("sequential", "ChannelCodeModel", "order", f"output {float(out)} is not the fold over the stages that ran ({exp})")
    # one stage object in several roles (a self-inverse scrambler as encoder and decoder, one module as modulator and demodulator, one object in
    # every role): every DECLARED role runs, in order
    class Any6(BaseModel, BaseConstraint, BaseChannel, BaseModulator, BaseDemodulator):
        def __init__(self, sid):
            torch.nn.Module.__init__(self)
            self.sid = sid

        @property
        def bits_per_symbol(self):
            return 1

        def forward(self, x, *a, **k):
            sink.items.append((self.sid, _val(x), a, tuple(sorted(k.items()))))
            return x * 16 + self.sid
    for roles in ((1, 2, 3, 4, 5, 1), (1, 2, 3, 4, 3, 6), (1, 1, 1, 1, 1, 1), (1, 2, 3, 2, 5, 6)):
        try:
            objs = {sid: Any6(sid) for sid in set(roles)}
            m = ChannelCodeModel(*[objs[sid] for sid in roles])
            del sink.items[:]
            out = m(x, k=1)
        except Exception as e:  # noqa: BLE001
            res.rejected += 1          # a model may decline such a construction (type checks); it may not run fewer stages than declared
            continue
        res.ev(1, nontrivial=1, transitions=1)
        ran = [e[0] for e in sink.items]
        decl = list(roles)
        alt = [decl[0], decl[2], decl[1]] + decl[3:]
        if ran not in (decl, alt):
            res.viol("sequential", f"ChannelCodeModel,roles={''.join(map(str, roles))}", "exactly-once", f"declared stage objects (encoder, constraint, modulator, channel, demodulator, decoder) = {decl}, stages ran {ran}")
    res.sample({"pipelines": ["DeepJSCCModel", "ChannelCodeModel"]})


# ----------------------------------------------------------------------------- branching: histories of add / remove / default / inspect / run
def branching_bfs_case(p, res):
    """every history (depth 5 [7]) of add_branch(name, truth, model), remove_branch(name), set_default_branch, get_branch(name) and run on one
    BranchingModel object, against an ordered-dictionary model: the run takes exactly the first registered branch whose condition holds NOW
    (a name that was removed and registered again carries its new condition and model, and comes last)"""
    from kaira.models.base import BaseModel
    from kaira.models.generic.branching import BranchingModel
    depth = 5 if p["tier"] == "quick" else 7

    class M(BaseModel):
        def __init__(self, tag, sink):
            super().__init__()
            self.tag, self.sink = tag, sink

        def forward(self, x, *a, **k):
            self.sink.items.append((self.tag, x, a, tuple(sorted(k.items()))))
            return ("out", self.tag, x)

    class Sys:
        def __init__(self):
            self.sink = Sink()
            self.model = BranchingModel()
            self.ref = []            # [(name, truth, tag)] in registration order
            self.default = None
            self.serial = 0
            self.touched = frozenset()   # names EVER looked at (run / get_branch), also after their removal: part of the state, so that an
                                         # implementation remembering earlier look-ups cannot hide behind state merging
    ops = []
    for name in ("a", "b"):
        for truth in (True, False):
            def add(s, name=name, truth=truth):
                s.serial += 1
                tag = f"{name}{s.serial}{'T' if truth else 'F'}"
                dup = any(r[0] == name for r in s.ref)
                try:
                    s.model.add_branch(name, (lambda x, t=truth: t), M(tag, s.sink))
                    raised = False
                except ValueError:
                    raised = True
                if not dup:
                    s.ref.append((name, truth, tag))
                return ("add", (dup, raised))
            ops.append((f"add_branch({name},{'T' if truth else 'F'})", add))

        def rem(s, name=name):
            have = any(r[0] == name for r in s.ref)
            try:
                s.model.remove_branch(name)
                raised = False
            except KeyError:
                raised = True
            s.ref = [r for r in s.ref if r[0] != name]
            return ("remove", (have, raised))
        ops.append((f"remove_branch({name})", rem))

        def get(s, name=name):
            have = [r for r in s.ref if r[0] == name]
            if have:
                s.touched = s.touched | {name}
            try:
                cond, model = s.model.get_branch(name)
                return ("get", (have, False, bool(cond(0)), getattr(model, "tag", "?")))
            except KeyError:
                return ("get", (have, True, None, None))
        ops.append((f"get_branch({name})", get))

    def setdef(s):
        s.serial += 1
        s.default = f"d{s.serial}"
        s.model.set_default_branch(M(s.default, s.sink))
        return ("default", None)
    ops.append(("set_default_branch", setdef))

    def setdef_alias(s):
        # the SAME model object serves as branch 'a' and as the default (removing the branch later must not take the default away)
        if not any(r[0] == "a" for r in s.ref):
            return ("default", None)
        m_ = s.model.branches["a"][1]
        s.model.set_default_branch(m_)
        s.default = getattr(m_, "tag", "?")
        return ("default", None)
    ops.append(("set_default_branch(model of a)", setdef_alias))

    def run(s):
        del s.sink.items[:]
        s.touched = s.touched | {r[0] for r in s.ref}
        try:
            out = s.model(9, True, "a", k=1)
        except RuntimeError as e:
            return ("run", (None, [], str(e)))
        return ("run", (out, list(s.sink.items), None))
    ops.append(("run", run))

    def canon(s):
        return (tuple((n, getattr(m, "tag", "?")) for n, (c, m) in s.model.branches.items()), getattr(s.model.default_branch, "tag", None),
                bfs.canon_value({k: v for k, v in vars(s.model).items() if k not in bfs.SKIP and k not in ("branches", "default_branch", "training")}),
                tuple(s.ref), s.default, tuple(sorted(s.touched)))

    def on_tr(names, s, obs):
        cfg = "bfs"
        v = lambda clause, d: res.viol("branching", cfg, clause, f"history {list(names)}: {d}", {"history": list(names)})  # noqa: E731
        if isinstance(obs, Exception):
            v("raises", f"{type(obs).__name__}: {obs}")
            return
        kind, val = obs
        have = tuple((n, getattr(m, "tag", "?")) for n, (c, m) in s.model.branches.items())
        if have != tuple((r[0], r[2]) for r in s.ref) or getattr(s.model.default_branch, "tag", None) != s.default:
            v("first-match", f"registered branches {have} / default {getattr(s.model.default_branch, 'tag', None)} but the ordered-dictionary model has {s.ref} / {s.default}")
        if kind == "add" and val[0] != val[1]:
            v("first-match", f"add_branch: name already registered={val[0]} but ValueError raised={val[1]}")
        if kind == "remove" and val[0] == val[1]:
            v("first-match", f"remove_branch: name registered={val[0]} but KeyError raised={val[1]}")
        if kind == "get":
            have_, raised, truth, tag = val
            if bool(have_) == raised:
                v("first-match", f"get_branch: name registered={bool(have_)} but KeyError raised={raised}")
            elif have_ and (truth, tag) != (have_[0][1], have_[0][2]):
                v("first-match", f"get_branch returned (condition -> {truth}, model {tag}) but the registered branch is {have_[0]}")
        if kind == "run":
            out, log, err = val
            first = next((r for r in s.ref if r[1]), None)
            want = (first[2], first[0]) if first else ((s.default, "default") if s.default else None)
            if want is None:
                if err is None:
                    v("first-match", f"no condition holds and no default: returned {out} instead of raising")
            elif err is not None:
                v("first-match", f"RuntimeError {err!r} but branch {want} should run")
            elif [e[0] for e in log] != [want[0]]:
                v("first-match" if len(log) == 1 else "exactly-once", f"models run {[e[0] for e in log]}, expected exactly [{want[0]}] (registered {s.ref}, default {s.default})")
            elif out != (("out", want[0], 9), want[1]):
                v("first-match", f"returned {out}, expected ({('out', want[0], 9)}, '{want[1]}')")
            elif log[0][2] != ("a",) or log[0][3] != (("k", 1),):
                v("args-forwarded", f"branch model called with {log[0][2:]}")
            res.outcome(repr(out))
    st = bfs.explore(Sys, ops, depth, canon, on_tr)
    res.ev(st["transitions"], nontrivial=st["transitions"], states=st["states"], transitions=st["transitions"])
    res.bump("bfs_states", st["states"])
    res.sample({"class": "BranchingModel", "depth": depth, "states": st["states"], "transitions": st["transitions"]})


# ----------------------------------------------------------------------------- branching
def branching_case(p, res):
    import torch
    from kaira.models.base import BaseModel
    from kaira.models.generic.branching import BranchingModel
    n = p["n"]
    calls = []

    class M(BaseModel):
        def __init__(self, tag):
            super().__init__()
            self.tag = tag

        def forward(self, x, *a, **k):
            calls.append((self.tag, x, a, tuple(sorted(k.items()))))
            return ("out", self.tag, x)
    for truth in product([False, True], repeat=n):
        for form in ("bool", "tensor", "int"):
            for has_default in (True, False):
                for hist in ("plain", "add-remove"):
                    cfg = f"n={n},{form},default={int(has_default)},{hist}"
                    bm = BranchingModel()
                    order = list(range(n))
                    if hist == "add-remove":
                        bm.add_branch("tmp", lambda x: True, M("tmp"))
                    for i in range(n):
                        t = truth[i]
                        cond = (lambda x, t=t: t) if form == "bool" else (lambda x, t=t: torch.tensor(t)) if form == "tensor" else (lambda x, t=t: int(t))
                        bm.add_branch(f"b{i}", cond, M(i))
                    if hist == "add-remove":
                        bm.remove_branch("tmp")
                        if n >= 2:   # remove and re-add the first branch: it now comes last
                            c0, m0 = bm.branches["b0"]
                            bm.remove_branch("b0")
                            bm.add_branch("b0", c0, m0)
                            order = list(range(1, n)) + [0]
                    if has_default:
                        bm.set_default_branch(M("default"))
                    first = next((i for i in order if truth[i]), None)
                    want = first if first is not None else ("default" if has_default else None)
                    del calls[:]
                    res.ev(1, nontrivial=1 if sum(truth) > 1 else 0, transitions=1)
                    try:
                        out = bm(9, True, "a", k=1)
                    except RuntimeError as e:
                        if want is not None:
                            res.viol("branching", cfg, "first-match", f"truth {truth}: RuntimeError {e} but branch {want} should run")
                        continue
                    except Exception as e:  # noqa: BLE001
                        res.viol("branching", cfg, "raises", f"truth {truth}: {type(e).__name__}: {e}")
                        continue
                    if want is None:
                        res.viol("branching", cfg, "first-match", f"truth {truth}, no default: returned {out} instead of raising")
                        continue
                    name = f"b{want}" if want != "default" else "default"
                    if [c[0] for c in calls] != [want]:
                        res.viol("branching", cfg, "first-match" if len(calls) == 1 else "exactly-once", f"truth {truth} (evaluation order {order}): models run {[c[0] for c in calls]}, expected exactly [{want}]")
                    elif out != (("out", want, 9), name):
                        res.viol("branching", cfg, "first-match", f"truth {truth}: returned {out}, expected ({('out', want, 9)}, '{name}')")
                    elif calls[0][2] != ("a",) or calls[0][3] != (("k", 1),):
                        res.viol("branching", cfg, "args-forwarded", f"branch model called with {calls[0][2:]}")
    # the binary constructor BranchingModel(condition, true_branch, false_branch): every subset of the two branch models given, condition true /
    # false; a branch that is not given is the identity
    if n == 1:
        for give_t, give_f, truth1 in product([False, True], [False, True], [False, True]):
            for form in ("bool", "tensor"):
                cfg = f"binary,true={int(give_t)},false={int(give_f)},cond={int(truth1)},{form}"
                cond = (lambda x, t=truth1: t) if form == "bool" else (lambda x, t=truth1: torch.tensor(t))
                kw = {"condition": cond}
                if give_t:
                    kw["true_branch"] = M("T")
                if give_f:
                    kw["false_branch"] = M("F")
                del calls[:]
                res.ev(1, nontrivial=1, transitions=1)
                try:
                    out = BranchingModel(**kw)(9, True, "a", k=1)
                except Exception as e:  # noqa: BLE001
                    res.viol("branching", cfg, "raises", f"{type(e).__name__}: {e}")
                    continue
                given = give_t if truth1 else give_f
                tag = "T" if truth1 else "F"
                ran = [c[0] for c in calls]
                if given:
                    if ran != [tag] or out[0] != ("out", tag, 9):
                        res.viol("branching", cfg, "first-match", f"condition {truth1}: models run {ran}, returned {out}; the {'true' if truth1 else 'false'} branch model should run exactly once")
                    elif calls[0][2] != ("a",) or calls[0][3] != (("k", 1),):
                        res.viol("branching", cfg, "args-forwarded", f"branch model called with {calls[0][2:]}")
                else:
                    if ran or out[0] != 9:
                        res.viol("branching", cfg, "first-match", f"condition {truth1} and no model given for that side: models run {ran}, returned {out}; expected the input unchanged")
                if out[1] != ("true_branch" if truth1 else "default"):
                    res.viol("branching", cfg, "first-match", f"condition {truth1}: branch name reported as {out[1]!r}")
    res.sample({"branches": n, "assignments": 2 ** n})


# ----------------------------------------------------------------------------- feedback
def feedback_case(p, res):
    import torch
    from kaira.channels.base import BaseChannel
    from kaira.models.base import BaseModel
    from kaira.models.feedback_channel import FeedbackChannelModel
    log = []

    def mk(base, tag):
        class R(base):
            def forward(self, x, *a, **k):
                log.append(tag)
                if tag == "generator":
                    return x + 1000
                return (x if x is not None else torch.tensor(0.0)) + {"processor": 0.5, "encoder": 1, "fwd": 10, "decoder": 100, "fb": 10000}[tag]
        return R()
    names = ["encoder", "forward_channel", "decoder", "feedback_generator", "feedback_channel", "feedback_processor"]
    for it, spelling in [(i, sp) for i in range(1, 6) for sp in ("keyword", "positional", "all-keywords")]:
        del log[:]
        parts = [mk(BaseModel, "encoder"), mk(BaseChannel, "fwd"), mk(BaseModel, "decoder"), mk(BaseModel, "generator"), mk(BaseChannel, "fb"), mk(BaseModel, "processor")]
        cfgf = f"iterations={it}" + ("" if spelling == "keyword" else f",{spelling}")
        try:
            if spelling == "keyword":
                m = FeedbackChannelModel(*parts, max_iterations=it)
            elif spelling == "positional":
                m = FeedbackChannelModel(*parts, it)
            else:
                m = FeedbackChannelModel(**dict(zip(names, parts)), max_iterations=it)
            out = m(torch.tensor(1.0))
        except Exception as e:  # noqa: BLE001
            res.viol("feedback", cfgf, "raises", f"{type(e).__name__}: {e}")
            continue
        res.ev(1, nontrivial=1, transitions=1)
        exp = []
        for i in range(it):
            exp += (["processor"] if i > 0 else []) + ["encoder", "fwd", "decoder", "generator", "fb"]
        if log != exp:
            res.viol("feedback", cfgf, "rounds" if log.count("encoder") != it else "order", f"components ran {log}, expected {exp}")
        elif len(out["iterations"]) != it or len(out["feedback_history"]) != it or float(out["final_output"]) != float(out["iterations"][-1]["decoded"]) or float(out["final_output"]) != 112.0:
            res.viol("feedback", cfgf, "rounds", f"{len(out['iterations'])} rounds recorded, final_output {out.get('final_output')}")
    # the number of rounds is configured, not data-dependent: value-transparent stages (a lossless link: decoded == input from round 1 on), stages
    # that return zeros, and a link that becomes lossless in round 2 only - always exactly max_iterations rounds
    for behaviour in ("transparent", "zeros", "lossless-from-round-2"):
        for it in range(1, 6):
            for x0 in (torch.tensor([1.0, 0.0, 1.0]), torch.zeros(2, 3)):
                del log[:]
                state = {"round": 0}

                def mkv(base, tag, behaviour=behaviour, state=state):
                    class R(base):
                        def forward(self, x, *a, **k):
                            log.append(tag)
                            if tag == "encoder":
                                state["round"] += 1
                            if behaviour == "zeros":
                                return torch.zeros_like(x)
                            if behaviour == "lossless-from-round-2" and tag == "fwd" and state["round"] == 1:
                                return x + 1.0
                            return x.clone() if tag in ("decoder", "generator") else x
                    return R()
                parts = [mkv(BaseModel, "encoder"), mkv(BaseChannel, "fwd"), mkv(BaseModel, "decoder"), mkv(BaseModel, "generator"), mkv(BaseChannel, "fb"), mkv(BaseModel, "processor")]
                cfgf = f"iterations={it},{behaviour},input={'x'.join(map(str, x0.shape))}"
                try:
                    out = FeedbackChannelModel(*parts, max_iterations=it)(x0)
                except Exception as e:  # noqa: BLE001
                    res.viol("feedback", cfgf, "raises", f"{type(e).__name__}: {e}")
                    continue
                res.ev(1, nontrivial=1, transitions=1)
                exp = []
                for i in range(it):
                    exp += (["processor"] if i > 0 else []) + ["encoder", "fwd", "decoder", "generator", "fb"]
                if log != exp or len(out["iterations"]) != it or len(out["feedback_history"]) != it:
                    res.viol("feedback", cfgf, "rounds" if log.count("encoder") != it else "order", f"components ran {log} ({len(out['iterations'])} rounds recorded), expected {it} rounds: {exp}")
    res.sample({"iterations": "1..5"})


# ----------------------------------------------------------------------------- multiple access
def mac_case(p, res):
    import torch
    from kaira.channels.base import BaseChannel
    from kaira.constraints.base import BaseConstraint
    from kaira.models.base import BaseModel
    from kaira.models.multiple_access_channel import MultipleAccessChannelModel
    U = p["users"]
    log = []

    class Enc(BaseModel):
        def __init__(self, tag=None):
            super().__init__()
            self.tag = tag if tag is not None else "cls"

        def forward(self, x, *a, **k):
            log.append(("enc", self.tag, float(x.reshape(-1)[0])))
            return x * (3.0 if self.tag in (0, "cls") else 5.0)

    class Dec(BaseModel):
        def __init__(self, tag="dec"):
            super().__init__()
            self.tag = tag

        def forward(self, x, *a, **k):
            log.append(("dec", self.tag, float(x.reshape(-1)[0])))
            return x.reshape(1, -1) + 0.25

    class Con(BaseConstraint):
        def forward(self, x, *a, **k):
            log.append(("con", x.detach().clone()))
            return x * 2.0

    class Ch(BaseChannel):
        def forward(self, x, *a, **k):
            log.append(("ch", x.detach().clone()))
            return x + 0.5
    configs = [("class", None), ("shared", None)] + [("list", assign) for assign in product([0, 1], repeat=U)]
    # message layouts (batch, message_dim...): every (user, sample, coordinate) carries its own value, so a row or user mix-up changes the sum
    shapes = [(1,), (1, 1), (2, 1), (3, 2), (2, 2, 2)] + ([(5, 3)] if p["tier"] != "quick" else [])
    for shape in shapes:
        numel = 1
        for s_ in shape:
            numel *= s_
        xs = [(float(10 ** i) * (1.0 + torch.arange(numel, dtype=torch.float64) * 0.125 * (i + 1))).reshape(shape) for i in range(U)]
        for ekind, assign in configs:
            for dkind in ("joint", "separate"):
                cfg = f"users={U},enc={ekind}{'' if assign is None else ''.join(map(str, assign))},dec={dkind}" + ("" if shape == (1,) else f",shape={'x'.join(map(str, shape))}")
                pool = [Enc(0), Enc(1)]
                if ekind == "class":
                    encs, gains = Enc, [3.0] * U
                elif ekind == "shared":
                    encs, gains = pool[0], [3.0] * U
                else:
                    encs, gains = [pool[a] for a in assign], [3.0 if a == 0 else 5.0 for a in assign]
                decs = Dec() if dkind == "joint" else [Dec(i) for i in range(U)]
                try:
                    m = MultipleAccessChannelModel(encoders=encs, decoders=decs, channel=Ch(), power_constraint=Con(), num_devices=U)
                    del log[:]
                    out = m(list(xs))
                except Exception as e:  # noqa: BLE001
                    if dkind == "separate" and U == 1:
                        res.rejected += 1   # a one-element decoder list is by definition the joint decoder
                        continue
                    res.viol("mac", cfg, "raises", f"{type(e).__name__}: {str(e)[:200]}")
                    continue
                res.ev(1, nontrivial=1 if U > 1 else 0, transitions=1)
                total = sum(g * x for g, x in zip(gains, xs))
                kinds = [e[0] for e in log]
                ndec = 1 if (dkind == "joint" or U == 1) else U
                if kinds != ["enc"] * U + ["con", "ch"] + ["dec"] * ndec:
                    res.viol("mac", cfg, "order", f"stages ran {kinds}")
                    continue
                con_in = [e for e in log if e[0] == "con"][0][1]
                ch_in = [e for e in log if e[0] == "ch"][0][1]
                if tuple(con_in.shape) != tuple(total.shape) or not torch.allclose(con_in, total, rtol=1e-9, atol=0):
                    used = [e[1] for e in log if e[0] == "enc"]
                    res.viol("mac", cfg, "superposition", f"constraint received {con_in.reshape(-1).tolist()[:8]} (shape {tuple(con_in.shape)}), the sum of every user's own encoder output is "
                             f"{total.reshape(-1).tolist()[:8]} (encoders used: {used}, assignment {assign})", {"assign": assign, "shape": list(shape)})
                elif not torch.allclose(ch_in, 2 * con_in, rtol=1e-9, atol=0):
                    res.viol("mac", cfg, "order", f"channel received {ch_in.reshape(-1).tolist()[:8]}, expected constraint output {(2 * con_in).reshape(-1).tolist()[:8]}")
    res.sample({"users": U, "encoder_configs": len(configs)})


# ----------------------------------------------------------------------------- Wyner-Ziv
def wz_case(p, res):
    import torch
    from kaira.channels.base import BaseChannel
    from kaira.constraints.base import BaseConstraint
    from kaira.models.base import BaseModel
    from kaira.models.wyner_ziv import WynerZivCorrelationModel, WynerZivModel
    log = []

    def mk(base, tag):
        class R(base):
            def forward(self, x, *a, **k):
                log.append((tag, len(a)))
                return x * 16 + {"enc": 1, "q": 2, "syn": 3, "con": 4, "ch": 5, "dec": 6}[tag]
        return R()
    for q, syn, con, side in product([False, True], repeat=4):
        cfg = f"q={int(q)},syn={int(syn)},con={int(con)},side={int(side)}"
        corr = WynerZivCorrelationModel("custom", {"transform_fn": lambda s: (log.append(("corr", 0)), s + 0.5)[1]})
        m = WynerZivModel(mk(BaseModel, "enc"), mk(BaseChannel, "ch"), mk(BaseModel, "dec"), correlation_model=corr,
                          quantizer=mk(BaseModel, "q") if q else None, syndrome_generator=mk(BaseModel, "syn") if syn else None, constraint=mk(BaseConstraint, "con") if con else None)
        del log[:]
        x = torch.tensor([2.0], dtype=torch.float64)
        try:
            out = m(x, side_info=torch.tensor([9.0], dtype=torch.float64) if side else None)
        except Exception as e:  # noqa: BLE001
            res.viol("wyner-ziv", cfg, "raises", f"{type(e).__name__}: {e}")
            continue
        res.ev(1, nontrivial=1, transitions=1)
        exp = ["enc"] + (["q"] if q else []) + (["syn"] if syn else []) + (["con"] if con else []) + ["ch"] + ([] if side else ["corr"]) + ["dec"]
        ran = [e[0] for e in log]
        if ran != exp:
            res.viol("wyner-ziv", cfg, "order" if sorted(ran) == sorted(exp) else "exactly-once", f"stages ran {ran}, expected {exp}")
        val = 2.0
        for t in exp:
            if t != "corr":
                val = val * 16 + {"enc": 1, "q": 2, "syn": 3, "con": 4, "ch": 5, "dec": 6}[t]
        if float(out) != val:
            res.viol("wyner-ziv", cfg, "order", f"output {float(out)}, fold over declared stages {val}")
        if log[-1] != ("dec", 1):
            res.viol("wyner-ziv", cfg, "args-forwarded", "decoder was not given the side information")
    res.sample({"configs": 16})


# ----------------------------------------------------------------------------- TLC cross-check of the executor model
def tlc_case(p, res):
    import json
    import os
    import re
    import subprocess
    import tempfile
    root = os.path.dirname(os.path.dirname(os.path.dirname(os.path.abspath(__file__))))
    spec = os.path.join(root, "models", "PoolGather.tla")
    for n in range(1, 6):
        for w in range(1, n + 1):
            with tempfile.TemporaryDirectory() as td:
                cfgf = os.path.join(td, "PoolGather.cfg")
                with open(cfgf, "w") as f:
                    f.write(f"SPECIFICATION Spec\nCONSTANTS N = {n}\n W = {w}\n")
                for fn in ("PoolGather.tla",):
                    with open(os.path.join(td, fn), "w") as f:
                        f.write(open(spec).read())
                r = subprocess.run(["tlc", "-workers", "1", "-noGenerateSpecTE", "-deadlock", "-metadir", os.path.join(td, "meta"), "-dump", "dot", os.path.join(td, "g"), "PoolGather.tla"],
                                   cwd=td, capture_output=True, text=True, timeout=600)
                dot = open(os.path.join(td, "g.dot")).read() if os.path.exists(os.path.join(td, "g.dot")) else ""
            orders = set()
            for lab in re.findall(r'label="([^"]*)"', dot):
                m = re.search(r"order = <<([0-9, ]*)>>", lab.replace("\\n", " "))
                if m and m.group(1).strip():
                    o = tuple(int(t) - 1 for t in m.group(1).split(","))
                    if len(o) == n:
                        orders.add(o)
            mine = set(sched.feasible_orders(n, w))
            res.ev(len(orders), nontrivial=len(orders), transitions=len(orders), traces=len(orders & mine))
            if orders != mine:
                res.viol("parallel", f"tlc,n={n},w={w}", "oracle-crash", f"TLC terminal orders ({len(orders)}) differ from the explorer's feasibility model ({len(mine)}); TLC exit {r.returncode}: {r.stdout[-300:]}")
    res.sample({"tlc_model": "models/PoolGather.tla", "n": "1..5"})


# ----------------------------------------------------------------------------- spelling equivalence of the constructors behind this property
# (positional / keyword / mixed spellings of one legal call configure the same object; shared helper kmc/spelling.py)
_cases0, _execute0, _component0 = cases, execute, component_of


def cases(tier, seed):  # noqa: F811
    yield from _cases0(tier, seed)
    yield f"{PID}|spelling", {"kind": "spelling", "tier": tier}


def execute(p, res):  # noqa: F811
    if p.get("kind") == "spelling":
        from kmc import spelling
        return spelling.run(PID, res)
    return _execute0(p, res)


def component_of(p):  # noqa: F811
    return "spelling" if p.get("kind") == "spelling" else _component0(p)


# ----------------------------------------------------------------------------- life-cycle equivalence of the components behind this property
# (deep copy / pickle / state_dict / eval-train / cast round trip / no_grad ... leave the behaviour unchanged; shared helper kmc/lifecycle.py)
_cases1, _execute1, _component1 = cases, execute, component_of


def cases(tier, seed):  # noqa: F811
    yield from _cases1(tier, seed)
    yield f"{PID}|lifecycle", {"kind": "lifecycle", "tier": tier}


def execute(p, res):  # noqa: F811
    if p.get("kind") == "lifecycle":
        from kmc import lifecycle
        return lifecycle.run(PID, res)
    return _execute1(p, res)


def component_of(p):  # noqa: F811
    return "lifecycle" if p.get("kind") == "lifecycle" else _component1(p)
