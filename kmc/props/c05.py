"""C05 – noise-free modulation followed by hard demodulation returns the transmitted bits (E1 + E2)."""
from kmc import bfs
from kmc import modcat as MC

PID = "C05"
ENGINE = "kmc-E1-space + kmc-E2-bfs"
RULE = ("every scheme/order/option: all 2^b single symbols, all ordered pairs (M<=64 quick), all triples (M<=8), a de Bruijn sequence of "
        "order 2 over the symbol alphabet, layouts 1-D / (B,L) / (2,2,L), 1-D sequences of every length 1..6 symbols; schemes with "
        "memory: BFS over {train, eval, reset, mod(s), demod(mod(s))} histories, after each the suffix [reset, eval, roundtrip] is checked; "
        "a state is one (scheme, layout, bit-sequence) point or one canonical modulator/demodulator state; non-trivial = not all-zero bits")
ASSUME = ["float32 bit tensors", "start-up allowances as stated in the property (differential reference symbol, OQPSK quadrature delay)"]
HORIZON = {"quick": 180, "thorough": 1800}


def bounds(tier):
    q = tier == "quick"
    return {"pairs_for_M_up_to": 64 if q else 256, "triples_for_M_up_to": 8, "one_d_lengths_symbols": "1..6", "bfs_depth": 3 if q else 4}


def cases(tier, seed):
    # one case per (scheme, order): every option combination of the family lives in ONE process, run in catalogue order and then again
    # (fresh instances) in reverse order, so that state shared between differently configured instances is exposed deterministically
    groups = {}
    for spec in MC.schemes(tier):
        groups.setdefault((spec[0], spec[2].get("order", spec[2].get("bits_per_symbol"))), []).append(spec)
    for (scheme, order), specs in groups.items():
        yield f"C05|{scheme}|order={order}", {"specs": specs, "tier": tier}


def component_of(p):
    return p["specs"][0][0]


def execute(p, res):
    from kmc.engine import fresh_kaira
    for spec in p["specs"]:
        run_spec({"spec": spec, "tier": p["tier"]}, res)
    if len(p["specs"]) > 1:
        fresh_kaira()          # the reverse order starts from pristine module state as well
        for spec in reversed(p["specs"]):
            run_spec({"spec": spec, "tier": p["tier"]}, res)


def expected(kind, bits, b):
    """what the property allows as the demodulated bit list: returns (expected_list, mask_of_constrained_positions)"""
    n = len(bits)
    if kind in ("memoryless", "alternating"):
        return list(bits), [True] * n
    if kind == "differential":
        return list(bits[b:]), [True] * (n - b)
    if kind == "offset":
        exp, mask = [], []
        ns = n // 2
        for i in range(ns):
            exp.append(bits[2 * i])
            mask.append(True)
            if i == 0:
                exp.append(0)
                mask.append(False)
            else:
                exp.append(bits[2 * (i - 1) + 1])
                mask.append(True)
        return exp, mask
    raise KeyError(kind)


def roundtrip(mod, dem, x, kind, b, reset=True, widen=False):
    """-> list of problems (strings) for one tensor of bit sequences (last dim = bits)"""
    import torch
    if reset:
        mod.reset_state()
        dem.reset_state()
    s = mod(x)
    probs = []
    nb = x.shape[-1]
    if tuple(s.shape) != tuple(x.shape[:-1]) + (nb // b,):
        probs.append(("count", f"{nb} bits -> symbols of shape {tuple(s.shape)}, expected last dim {nb // b}"))
        return probs
    if widen:                   # symbols handed over in double precision
        s = s.to(torch.complex128 if s.is_complex() else torch.float64)
    y = dem(s)
    rows_in = x.reshape(-1, nb).to(torch.float32).tolist()
    exp0, mask = expected(kind, rows_in[0], b)
    if tuple(y.shape) != tuple(x.shape[:-1]) + (len(exp0),) or y.dtype in (torch.int64, torch.int32) and False:
        probs.append(("roundtrip", f"demodulated shape {tuple(y.shape)}, expected {tuple(x.shape[:-1]) + (len(exp0),)}"))
        return probs
    rows_out = y.reshape(-1, len(exp0)).tolist()
    for ri, ro in zip(rows_in, rows_out):
        exp, mask = expected(kind, ri, b)
        bad = [i for i, (e, o, m) in enumerate(zip(exp, ro, mask)) if m and float(o) != float(e)]
        if bad:
            if len(ri) > 64:
                lo, hi = max(0, bad[0] - 8), bad[0] + 9
                probs.append(("roundtrip", f"{len(ri)} bits: output bits {lo}..{hi - 1} are {[int(v) if float(v).is_integer() else v for v in ro[lo:hi]]}, expected {exp[lo:hi]} (first difference at bit {bad[0]}, {len(bad)} differences)"))
            else:
                probs.append(("roundtrip", f"bits {[int(v) for v in ri]} -> {[int(v) if float(v).is_integer() else v for v in ro]}, expected {exp} (first difference at {bad[0]})"))
            break
    return probs


def run_spec(p, res):
    import torch
    spec = p["spec"]
    scheme, cfg, prm = spec
    q = p["tier"] == "quick"
    kind = MC.KIND[scheme]
    b = MC.bits_per_symbol(scheme, prm)
    M = 2 ** b
    mod, dem = MC.build(spec)
    res.outcome((scheme, M, kind))

    def run(layout, x, may_reject=False, widen=False):
        c = f"{cfg};layout={layout}"
        try:
            probs = roundtrip(mod, dem, x, kind, b, widen=widen)
        except Exception as e:  # noqa: BLE001
            if may_reject or (kind == "differential" and x.shape[-1] == b and "at least two symbols" in str(e)):
                res.rejected += 1
                return
            res.viol(scheme, c, "raises", f"input shape {tuple(x.shape)}: {type(e).__name__}: {str(e)[:200]}")
            return
        nseq = x.numel() // x.shape[-1]
        res.ev(nseq, nontrivial=nseq - 1 if nseq > 1 else int(bool(x.any())), transitions=2)
        for clause, detail in probs:
            res.viol(scheme, c, clause, detail, {"layout": layout})

    f32 = torch.float32
    sym = lambda v: MC.sym_bits(v, b)  # noqa: E731
    # all single symbols / ordered pairs / triples, one batched call each
    run("B,1sym", torch.tensor([sym(v) for v in range(M)], dtype=f32))
    if M <= (64 if q else 256):
        run("B,2sym", torch.tensor([sym(u) + sym(v) for u in range(M) for v in range(M)], dtype=f32))
    if M <= 8:
        run("B,3sym", torch.tensor([sym(u) + sym(v) + sym(w) for u in range(M) for v in range(M) for w in range(M)], dtype=f32))
    # de Bruijn sequence: every ordered pair of symbols adjacent once, as one long sequence
    db = MC.debruijn2(M) if M <= 64 else list(range(M)) + list(range(M - 1, -1, -1))
    seq = [bit for v in db for bit in sym(v)]
    run("1d-debruijn", torch.tensor(seq, dtype=f32))
    run("1,L-debruijn", torch.tensor([seq], dtype=f32))
    # the same bits in other presentations: bit dtypes (declining a dtype is allowed, other bits are not), double-precision symbols, and
    # non-contiguous views of a two-row batch
    for dt in ("float64", "int64", "int32", "uint8", "bool", "float16"):
        run(f"1,L-debruijn[{dt}]", torch.tensor([seq], dtype=f32).to(getattr(torch, dt)), may_reject=True)
    run("1,L-debruijn[wide symbols]", torch.tensor([seq], dtype=f32), may_reject=True, widen=True)
    two = torch.tensor([seq, seq[::-1]], dtype=f32)
    run("2,L[transposed view]", two.t().contiguous().t(), may_reject=True)
    run("2,L[strided view]", torch.stack([two, 1 - two], dim=2).reshape(2, -1)[:, ::2], may_reject=True)
    # one LONG sequence (the de Bruijn cycle repeated to 2^15+3 symbols [thorough: 2^17+5], an odd, non-round count), 1-D and as 3 rows of unequal content:
    # implementations that work in blocks / chunks must treat the tail like the rest
    nlong = ((1 << 15) + 3) if q else ((1 << 17) + 5)
    if kind == "alternating":
        nlong = (1 << 12) + 3          # per-symbol Python loop in the library
    reps = nlong // len(db) + 1
    long_syms = (db * reps)[:nlong]
    long_bits = [bit for v in long_syms for bit in sym(v)]
    run("1d-long", torch.tensor(long_bits, dtype=f32))
    third = (nlong // 3) * b
    run("3,L-long", torch.tensor([long_bits[:third], long_bits[third:2 * third], long_bits[-third:]], dtype=f32))
    half = (len(db) // 4) * 2 * b
    if half >= 2 * b:
        run("2,L", torch.tensor([seq[:half], seq[-half:]], dtype=f32))
        qq = (len(db) // 8) * 2 * b
        if qq >= 2 * b:
            run("2,2,L", torch.tensor([[seq[:qq], seq[qq:2 * qq]], [seq[-qq:], seq[-2 * qq:-qq]]], dtype=f32))
    # several batch dimensions holding 12 and 35 sequences of unequal content: (3,4,L), (2,2,3,L), (5,7,L)
    if len(db) >= 4:
        Ls = 4
        rows = [[bit for j in range(Ls) for bit in sym(db[(3 * r_ + 5 * j + (r_ * j) % 3) % len(db)])] for r_ in range(35)]
        run("3,4,L", torch.tensor(rows[:12], dtype=f32).reshape(3, 4, -1), may_reject=True)
        run("2,2,3,L", torch.tensor(rows[12:24], dtype=f32).reshape(2, 2, 3, -1), may_reject=True)
        run("5,7,L", torch.tensor(rows, dtype=f32).reshape(5, 7, -1), may_reject=True)
    # 1-D sequences of every length 1..6 symbols (implementations switch interpretation on numel / dim)
    for L in range(1, 7):
        for start in (0, 1, M - 1):
            vals = [(start + 3 * i) % M for i in range(L)]
            run(f"1d-len{L}", torch.tensor([bit for v in vals for bit in sym(v)], dtype=f32))

    # ---------------- alternating constellation: modulator and demodulator both carry the rotation state from call to call in training
    # mode; a stream cut into blocks (odd and even numbers of symbols) must round-trip block by block without a reset in between
    if kind == "alternating":
        try:
            m2, d2 = MC.build(spec)
            m2.train()
            d2.train()
            m2.reset_state()
            d2.reset_state()
            stream_ok = True
            for bi, L in enumerate((3, 2, 1, 5, 4)):
                vals = [(bi + 2 * i + 1) % M for i in range(L)]
                xb = torch.tensor([[bit for v_ in vals for bit in sym(v_)]], dtype=f32)
                yb = d2(m2(xb))
                res.ev(1, nontrivial=1, transitions=2)
                if tuple(yb.shape) != tuple(xb.shape) or not torch.equal(yb.to(f32), xb):
                    res.viol(scheme, f"{cfg};stream", "stream-continuity", f"training mode, block {bi} ({L} symbols) of a stream cut into blocks of 3,2,1,5,4 symbols: bits {xb[0].tolist()} -> {yb.reshape(-1).tolist()}")
                    stream_ok = False
                    break
        except Exception as e:  # noqa: BLE001
            res.viol(scheme, f"{cfg};stream", "raises", f"{type(e).__name__}: {str(e)[:160]}")
    # ---------------- E2: schemes with memory
    if kind != "memoryless":
        pool = [[bit for v in (1 % M, M - 1, 2 % M) for bit in sym(v)], [bit for v in (M - 1, M - 1) for bit in sym(v)],
                [bit for v in (0, 1 % M, 3 % M, 2 % M, M - 1) for bit in sym(v)]]
        probe = torch.tensor([[bit for v in (2 % M, 1 % M, M - 1, 0, 1 % M) for bit in sym(v)]], dtype=f32)

        def build():
            m, d = MC.build(spec)
            return (m, d)
        def op(f):
            def g(s):
                f(s)
            return g

        def rt(t):
            # a round trip WITHOUT a reset in between: as long as modulator and demodulator have seen the same calls they stay in step,
            # in training mode (state carried) and in eval mode alike
            def g(s):
                return roundtrip(s[0], s[1], t, kind, b, reset=False)
            return g
        ops = [("train", op(lambda s: (s[0].train(), s[1].train()))), ("eval", op(lambda s: (s[0].eval(), s[1].eval()))),
               ("reset", op(lambda s: (s[0].reset_state(), s[1].reset_state())))]
        for i, sq in enumerate(pool):
            t = torch.tensor([sq], dtype=f32)
            ops.append((f"mod(s{i})", op(lambda s, t=t: s[0](t))))
            ops.append((f"rt(s{i})", rt(t)))

        def canon(s):
            return (bfs.canon_module(s[0]), bfs.canon_module(s[1]))

        def on_tr(names, s, obs):
            if isinstance(obs, Exception):
                res.viol(scheme, f"{cfg};history", "raises", f"history {list(names)}: {type(obs).__name__}: {str(obs)[:160]}", {"history": list(names)})
                return
            if isinstance(obs, list) and obs and not any(nm.startswith("mod(") for nm in names):
                for clause, detail in obs:
                    res.viol(scheme, f"{cfg};history", "in-step" if clause == "roundtrip" else clause, f"history {list(names)} (modulator and demodulator saw the same calls, no reset before the last one): {detail}", {"history": list(names)})
            s[0].eval()
            s[1].eval()
            try:
                probs = roundtrip(s[0], s[1], probe, kind, b, reset=True)
            except Exception as e:  # noqa: BLE001
                probs = [("raises", f"{type(e).__name__}: {str(e)[:160]}")]
            for clause, detail in probs:
                res.viol(scheme, f"{cfg};history", "after-reset" if clause == "roundtrip" else clause, f"after history {list(names)} + [reset, eval]: {detail}", {"history": list(names)})
        st = bfs.explore(build, ops, 3 if q else 4, canon, on_tr)
        res.ev(st["transitions"], nontrivial=st["transitions"], states=st["states"], transitions=st["transitions"])
        res.bump("bfs_states", st["states"])
        res.bump("bfs_transitions", st["transitions"])
    res.sample({"scheme": scheme, "cfg": cfg, "M": M, "kind": kind, "debruijn_len": len(db)})


# ----------------------------------------------------------------------------- spelling equivalence of the constructors behind this property
# (positional / keyword / mixed spellings of one legal call configure the same object; shared helper kmc/spelling.py)
_cases0, _execute0, _component0 = cases, execute, component_of


def cases(tier, seed):  # noqa: F811
    yield from _cases0(tier, seed)
    yield f"{PID}|spelling", {"kind": "spelling", "tier": tier}


def execute(p, res):  # noqa: F811
    if p.get("kind") == "spelling":
        from kmc import spelling
        return spelling.run(PID, res)
    return _execute0(p, res)


def component_of(p):  # noqa: F811
    return "spelling" if p.get("kind") == "spelling" else _component0(p)


# ----------------------------------------------------------------------------- life-cycle equivalence of the components behind this property
# (deep copy / pickle / state_dict / eval-train / cast round trip / no_grad ... leave the behaviour unchanged; shared helper kmc/lifecycle.py)
_cases1, _execute1, _component1 = cases, execute, component_of


def cases(tier, seed):  # noqa: F811
    yield from _cases1(tier, seed)
    yield f"{PID}|lifecycle", {"kind": "lifecycle", "tier": tier}


def execute(p, res):  # noqa: F811
    if p.get("kind") == "lifecycle":
        from kmc import lifecycle
        return lifecycle.run(PID, res)
    return _execute1(p, res)


def component_of(p):  # noqa: F811
    return "lifecycle" if p.get("kind") == "lifecycle" else _component1(p)
