"""C08 – power / amplitude / PAPR constraints hold on every batch item; composites equal sequential application (E1)."""
import math
from itertools import product

PID = "C08"
ENGINE = "kmc-E1-space"
RULE = ("constraints {total, average, per-antenna (uniform / budget), peak, PAPR, composite, factory-built} x targets over decades x EVERY vector "
        "over the amplitude alphabet {0,+-0.1,+-1,+-3} of length <= 4 (quick) / 5 (thorough) and a complex alphabet of length <= 3, deterministic "
        "64-sample signal families x input scales 1e-2..1e4 x shapes (L,), (1,L), (B,L), (B,A,L), (B,A,2,L) with items in every ordered pair; every "
        "constraint chain of length <= 3 over a pool of 5; a state is one (constraint, item) evaluation; non-trivial = non-zero item")
ASSUME = ["float64 re-measurement of powers; 'non-negligible' = item mean-square >= 1e-4; PAPR clause only for non-sparse items (>= 1/4 of samples within 20 dB of the peak)",
          "the real-valued input space is continuous: verdicts hold for the stated finite alphabets"]
HORIZON = {"quick": 300, "thorough": 2400}
TARGETS = [1e-2, 1.0, 1e2]
SCALES = [1e-2, 1.0, 1e2, 1e4]
REAL_ALPHA = [0.0, 0.1, -0.1, 1.0, -1.0, 3.0, -3.0]
CPLX_ALPHA = [0j, 1 + 1j, 1 - 1j, -1 + 1j, -1 - 1j, 0.1j, -0.1j, 3 + 0j]


def bounds(tier):
    return {"real_vectors_length": "1..4" if tier == "quick" else "1..5", "complex_vectors_length": "1..3", "targets": TARGETS, "input_scales": SCALES,
            "papr_limits": [1.5, 3.0, 6.0], "chains": 155}


def cases(tier, seed):
    for kind in ("total", "average"):
        for tg in TARGETS:
            for cplx in (False, True):
                yield f"C08|{kind}|target={tg},{'complex' if cplx else 'real'}", {"kind": "power", "which": kind, "target": tg, "cplx": cplx, "tier": tier}
    for tg in TARGETS:
        for mode in ("uniform", "budget"):
            yield f"C08|per-antenna|target={tg},{mode}", {"kind": "antenna", "target": tg, "mode": mode, "tier": tier}
    for A in (0.5, 1.0, 2.5, 0.01, 0.1, 0.3, 1.3, 37.0):      # dyadic and non-dyadic limits over the decades of the targets
        yield f"C08|peak|A={A}", {"kind": "peak", "A": A, "tier": tier}
    for lim in (1.5, 3.0, 6.0):
        for cplx in (False, True):
            yield f"C08|papr|limit={lim},{'complex' if cplx else 'real'}", {"kind": "papr", "limit": lim, "cplx": cplx, "tier": tier}
    # the same spaces with double-precision signals (one target each)
    for cplx in (False, True):
        for kind in ("total", "average"):
            yield f"C08|{kind}|target=1.0,{'complex' if cplx else 'real'},double", {"kind": "power", "which": kind, "target": 1.0, "cplx": cplx, "tier": tier, "double": True}
        yield f"C08|papr|limit=3.0,{'complex' if cplx else 'real'},double", {"kind": "papr", "limit": 3.0, "cplx": cplx, "tier": tier, "double": True}
    yield "C08|peak|A=1.0,double", {"kind": "peak", "A": 1.0, "tier": tier, "double": True}
    yield "C08|composite|chains", {"kind": "chains", "tier": tier}
    yield "C08|factory|ofdm", {"kind": "ofdm", "tier": tier}
    yield "C08|factory|mimo", {"kind": "mimo", "tier": tier}


def component_of(p):
    return {"power": p.get("which", ""), "antenna": "per-antenna", "peak": "peak", "papr": "papr", "chains": "composite", "ofdm": "factory-ofdm", "mimo": "factory-mimo"}[p["kind"]]


_DOUBLE = False


def execute(p, res):
    global _DOUBLE
    _DOUBLE = bool(p.get("double"))
    {"power": power_case, "antenna": antenna_case, "peak": peak_case, "papr": papr_case, "chains": chains_case, "ofdm": ofdm_case, "mimo": mimo_case}[p["kind"]](p, res)


# ----------------------------------------------------------------------------- signal pools
def all_vectors(cplx, Lmax):
    alpha = CPLX_ALPHA if cplx else REAL_ALPHA
    out = {}
    for L in range(1, Lmax + 1):
        out[L] = [list(v) for v in product(alpha, repeat=L)]
    return out


def long_signals(cplx, n=64):
    i = [k for k in range(n)]
    fam = {
        "multitone": [math.cos(0.3 * k) + 0.7 * math.cos(0.91 * k + 1.0) + 0.4 * math.cos(2.2 * k + 0.3) for k in i],
        "constant": [1.0] * n,
        "alternating": [1.0 if k % 2 == 0 else -1.0 for k in i],
        "cauchy": [math.tan(math.pi * ((k + 0.5) / n - 0.5)) for k in i],
        "uniform": [2 * ((k * 37) % n + 0.5) / n - 1 for k in i],
        "spike": [10.0 if k == 5 else 0.01 * math.cos(k) for k in i],
    }
    if cplx:
        fam = {nm: [complex(v, 0.6 * fam[nm][(k * 7 + 3) % n]) for k, v in enumerate(vs)] for nm, vs in fam.items()}
    return fam


def T(v, cplx):
    import torch
    if _DOUBLE:
        return torch.tensor(v, dtype=torch.complex128 if cplx else torch.float64)
    return torch.tensor(v, dtype=torch.complex64 if cplx else torch.float32)


def item_power(t, how):
    """float64 per-item power: t (B, ...) -> list"""
    import torch
    a = t.reshape(t.shape[0], -1).to(torch.complex128 if t.is_complex() else torch.float64)
    p = (a.abs() ** 2)
    return (p.sum(dim=1) if how == "total" else p.mean(dim=1)).tolist()


def check_power_items(res, comp, cfg, X, Y, target, how, items_dim0=True):
    """never-more, equal-0.1%, positive-factor per item. X, Y: (B, ...)"""
    import torch
    pin = item_power(X, "average")
    pout = item_power(Y, how)
    a = X.reshape(X.shape[0], -1).to(torch.complex128)
    b = Y.reshape(Y.shape[0], -1).to(torch.complex128)
    nb = 0
    for i in range(X.shape[0]):
        nonzero = pin[i] > 0
        res.ev(1, nontrivial=1 if nonzero else 0, transitions=0)
        if not nonzero:
            continue
        res.outcome((comp, how, round(pout[i] / target, 4)))
        if not (pout[i] <= target * (1 + 1e-5)) or not math.isfinite(pout[i]):
            nb += 1
            res.viol(comp, cfg, "never-more", f"item {a[i].tolist()[:6]}: output {how} power {pout[i]:.6g} exceeds target {target}", {"item": i})
        elif pin[i] >= 1e-4 and abs(pout[i] - target) > 1e-3 * target:
            nb += 1
            res.viol(comp, cfg, "equal-0.1%", f"item {a[i].tolist()[:6]} (mean-square {pin[i]:.3g}): output {how} power {pout[i]:.6g}, target {target}", {"item": i})
        xx, yy = a[i], b[i]
        c = (torch.vdot(xx, yy) / torch.vdot(xx, xx))
        if abs(c.imag) > 1e-5 * abs(c) or c.real <= 0 or float((yy - c * xx).abs().max()) > 1e-5 * float(yy.abs().max()) + 1e-12:
            nb += 1
            res.viol(comp, cfg, "positive-factor", f"item {xx.tolist()[:6]} -> {yy.tolist()[:6]} is not the input times a positive real factor (c={complex(c):.4g})", {"item": i})
        if nb > 3:
            break


def power_case(p, res):
    import torch
    import kaira.constraints as KC
    which, tg, cplx = p["which"], p["target"], p["cplx"]
    con = KC.TotalPowerConstraint(tg) if which == "total" else KC.AveragePowerConstraint(tg)
    Lmax = (3 if cplx else 4) if p["tier"] == "quick" else (3 if cplx else 5)
    vecs = all_vectors(cplx, Lmax)
    cfgb = f"target={tg},{'complex' if cplx else 'real'}" + (",double" if _DOUBLE else "")
    for L, vs in vecs.items():
        for sc in SCALES:
            cfg = f"{cfgb},shape=BxL"
            X = T(vs, cplx) * sc
            try:
                Y = con(X)
            except Exception as e:  # noqa: BLE001
                res.viol(which, cfg, "raises", f"L={L} scale={sc}: {type(e).__name__}: {str(e)[:200]}")
                continue
            res.transitions += 1
            if tuple(Y.shape) != tuple(X.shape):
                res.viol(which, cfg, "never-more", f"output shape {tuple(Y.shape)} for {tuple(X.shape)}")
                continue
            check_power_items(res, which, cfg, X, Y, tg, which)
            # idempotent and scale invariant (items of non-negligible power)
            ok = torch.tensor([pw >= 1e-4 for pw in item_power(X, "average")])
            Y2 = con(Y)
            if ok.any() and float((Y2 - Y)[ok].abs().max()) > 1e-4 * math.sqrt(tg) * (1 if which == "average" else 1):
                i = int(((Y2 - Y).abs().reshape(len(vs), -1).max(dim=1).values * ok).argmax())
                res.viol(which, cfg, "idempotent", f"f(f(x)) != f(x) for item {X[i].tolist()}: {Y[i].tolist()} -> {Y2[i].tolist()}", {"item": i})
            if sc == 1.0:
                Y3 = con(X * 100.0)
                if ok.any() and float((Y3 - Y)[ok].abs().max()) > 1e-3 * math.sqrt(tg):
                    res.viol(which, cfg, "scale-invariant", f"f(100 x) != f(x) (L={L})")
            # single-item presentations must agree with the batch row (every 5th item)
            for i in range(0, len(vs), 5):
                for lay in ("1d", "1xL"):
                    xi = X[i] if lay == "1d" else X[i:i + 1]
                    yi = con(xi).reshape(-1)
                    res.ev(1, nontrivial=0, transitions=1)
                    if float((yi - Y[i]).abs().max()) > 1e-5 * math.sqrt(tg) + 1e-6 * float(Y[i].abs().max()):
                        res.viol(which, f"{cfgb},shape={lay}", "item-independent", f"item {X[i].tolist()} alone ({lay}) -> {yi.tolist()} but inside the batch -> {Y[i].tolist()}", {"item": i})
                        break
    # higher-rank shapes: every ordered pair / triple of pool items as a batch
    pool = [[1.0, -1.0, 3.0, 0.1, 0.0, -3.0, 1.0, 1.0], [0.0] * 8, [0.1] * 8, [3.0, 0.0, 0.0, 0.0, 0.0, 0.0, 0.0, 0.0], [1.0, -1.0] * 4, [-0.1, 3.0, -3.0, 1.0, 0.1, 0.1, -1.0, 3.0]]
    if cplx:
        pool = [[complex(v, 0.5 * w[(k + 3) % 8]) for k, v in enumerate(w)] for w in pool]
    for shape_name, shp in (("BxAxL", (2, 4)), ("BxAx2xL", (2, 2, 2))):
        cfg = f"{cfgb},shape={shape_name}"
        for r in (2, 3):
            for combo in product(range(len(pool)), repeat=r):
                X = torch.stack([T(pool[c], cplx).reshape(shp) for c in combo])
                try:
                    Y = con(X)
                except Exception as e:  # noqa: BLE001
                    res.viol(which, cfg, "raises", f"{type(e).__name__}: {str(e)[:200]}")
                    break
                res.transitions += 1
                check_power_items(res, which, cfg, X, Y, tg, which)
                # item result independent of its neighbours: compare with the item alone
                for j, c in enumerate(combo):
                    alone = con(T(pool[c], cplx).reshape((1,) + shp))[0]
                    if float((alone - Y[j]).abs().max()) > 1e-5 * math.sqrt(tg) * 8:
                        res.viol(which, cfg, "item-independent", f"pool item {c} at position {j} of batch {combo} differs from the item processed alone", {"combo": list(combo)})
                        break
    # long deterministic signals
    for nm, vs in long_signals(cplx).items():
        for sc in SCALES:
            X = torch.stack([T(vs, cplx) * sc, T(list(reversed(vs)), cplx) * sc * 0.5])
            Y = con(X)
            res.transitions += 1
            check_power_items(res, which, f"{cfgb},family={nm}", X, Y, tg, which)
    # LARGE items (element counts that are not round: 5000, 4097, 3*41*41, and a round 3*64*64), batches of 4, 2-D and image-like 4-D layouts:
    # implementations that accumulate in blocks must treat the tail like the rest; each item must also agree with the item processed alone
    for shape in ((4, 5000), (4, 4097), (4, 3, 41, 41), (4, 3, 64, 64), (2, 2, 8193)):
        nitem = 1
        for d_ in shape[1:]:
            nitem *= d_
        fam = long_signals(cplx, n=nitem)
        rows = [fam["multitone"], fam["uniform"], fam["cauchy"], fam["alternating"]][: shape[0]]
        X = torch.stack([T(r_, cplx) * sc_ for r_, sc_ in zip(rows, (1.0, 0.03, 2.0, 70.0))]).reshape(shape)
        cfg = f"{cfgb},shape={'x'.join(map(str, shape))}"
        try:
            Y = con(X)
            res.transitions += 1
            check_power_items(res, which, cfg, X, Y, tg, which)
            for j in (0, shape[0] - 1):
                alone = con(X[j:j + 1])[0]
                if float((alone - Y[j]).abs().max()) > 1e-4 * math.sqrt(tg) * (1 + float(Y[j].abs().max()) / math.sqrt(tg)):
                    res.viol(which, cfg, "item-independent", f"item {j} of a batch of {shape[0]} large items differs from the item processed alone (max deviation {float((alone - Y[j]).abs().max()):.4g})")
                    break
        except Exception as e:  # noqa: BLE001
            res.viol(which, cfg, "raises", f"{type(e).__name__}: {str(e)[:200]}")
    res.sample({"constraint": which, "target": tg, "complex": cplx, "vectors": sum(len(v) for v in vecs.values())})


def antenna_case(p, res):
    import torch
    import kaira.constraints as KC
    tg, mode = p["target"], p["mode"]
    A = 3
    budget = [tg, 2 * tg, 0.5 * tg]
    con = KC.PerAntennaPowerConstraint(uniform_power=tg) if mode == "uniform" else KC.PerAntennaPowerConstraint(power_budget=torch.tensor(budget))
    targets = [tg] * A if mode == "uniform" else budget
    cfgb = f"target={tg},{mode}"
    for cplx in (False, True):
        alpha = CPLX_ALPHA if cplx else REAL_ALPHA
        L = 2
        streams = [list(v) for v in product(alpha, repeat=L)]
        # every ordered triple of streams on the three antennas would be |alpha|^6; use every ordered pair + a rotating third
        for sc in SCALES:
            rows = []
            for i, s1 in enumerate(streams):
                for j, s2 in enumerate(streams):
                    rows.append([s1, s2, streams[(i + 2 * j + 1) % len(streams)]])
            X = T(rows, cplx) * sc                       # (B, A, L)
            cfg = f"{cfgb},{'complex' if cplx else 'real'},shape=BxAxL"
            try:
                Y = con(X)
            except Exception as e:  # noqa: BLE001
                res.viol("per-antenna", cfg, "raises", f"{type(e).__name__}: {str(e)[:200]}")
                continue
            res.transitions += 1
            for a in range(A):
                check_power_items(res, "per-antenna", cfg, X[:, a, :], Y[:, a, :], targets[a], "average")
            Y2 = con(Y)
            pw = (X.abs() ** 2).mean(dim=2)
            ok = (pw >= 1e-4).unsqueeze(-1).expand_as(X)
            if ok.any() and float((Y2 - Y)[ok].abs().max()) > 1e-4 * math.sqrt(max(targets)):
                res.viol("per-antenna", cfg, "idempotent", "f(f(x)) != f(x)")
        # 4-D layout (B, A, 2, L)
        X = T([[[s, list(reversed(s))] for s in (streams[5], streams[-1], streams[9])] for _ in range(2)], cplx)
        X[1] = X[1] * 7.0
        Y = con(X)
        res.transitions += 1
        for a in range(A):
            check_power_items(res, "per-antenna", f"{cfgb},{'complex' if cplx else 'real'},shape=BxAx2xL", X[:, a], Y[:, a], targets[a], "average")
    res.sample({"constraint": "per-antenna", "targets": targets})


def peak_case(p, res):
    import torch
    import kaira.constraints as KC
    A = p["A"]
    con = KC.PeakAmplitudeConstraint(A)
    for L, vs in all_vectors(False, 4).items():
        for sc in SCALES:
            X = T(vs, False) * sc
            Y = con(X)
            res.ev(len(vs), nontrivial=len(vs) - 1, transitions=1)
            if float(Y.abs().max()) > A * (1 + 1e-6):
                res.viol("peak", f"A={A}", "peak", f"output sample {float(Y.abs().max())} exceeds {A}")
            inside = X.abs() <= A
            if not torch.equal(Y[inside], X[inside]) or bool((torch.sign(Y) != torch.sign(X)).any()):
                res.viol("peak", f"A={A}", "peak", "samples inside the limit were changed / a sign was flipped")
    for cplx_try in (True,):
        try:
            Y = con(T([[1 + 1j, 3 + 0j]], True))
            res.ev(1, transitions=1)
            if float(Y.abs().max()) > A * (1 + 1e-6) * math.sqrt(2):
                res.viol("peak", f"A={A},complex", "peak", f"complex output magnitude {float(Y.abs().max())}")
        except Exception:  # noqa: BLE001  (complex input is not supported by the clamp: a rejection, not a wrong answer)
            res.rejected += 1
    res.sample({"constraint": "peak", "A": A})


def papr_of(t):
    a = t.reshape(-1)
    pw = (a.abs().double() ** 2)
    return float(pw.max() / pw.mean()) if float(pw.mean()) > 0 else float("inf")


def nonsparse(t, limit=None):
    """the property's PAPR clause: >= 1/4 of the samples within 20 dB of the peak, and (when a limit is given) the limit is attainable
    by clipping: clipping at level c -> 0 drives the PAPR towards N / #(samples near the peak), which must be well below the limit"""
    a = t.reshape(-1).abs().double()
    pk = float(a.max())
    if not pk > 0:
        return False
    frac = float((a >= pk / 10).double().mean())
    if frac < 0.25:
        return False
    return limit is None or (1.0 / frac) <= 0.8 * limit


def papr_case(p, res):
    import torch
    import kaira.constraints as KC
    from kaira.constraints.utils import measure_signal_properties
    lim, cplx = p["limit"], p["cplx"]
    con = KC.PAPRConstraint(max_papr=lim)
    cfgb = f"limit={lim},{'complex' if cplx else 'real'}" + (",double" if _DOUBLE else "")
    items = []
    for nm, vs in long_signals(cplx).items():
        for sc in SCALES:
            items.append((nm, T(vs, cplx) * sc))
    alpha_items = [T(v, cplx) for v in all_vectors(cplx, 3 if cplx else 4)[3 if cplx else 4]]
    for nm, x in items + [("alphabet", a) for a in alpha_items]:
        if not nonsparse(x, lim):
            res.bump("sparse_items_skipped")
            continue
        for lay in ("1d", "1xL"):
            xi = x if lay == "1d" else x.unsqueeze(0)
            try:
                y = con(xi)
            except Exception as e:  # noqa: BLE001
                res.viol("papr", f"{cfgb},family={nm}", "raises", f"{type(e).__name__}: {str(e)[:200]}")
                break
            res.ev(1, nontrivial=1, transitions=1)
            pr = papr_of(y)
            res.outcome(("papr", round(pr / lim, 2)))
            pm = measure_signal_properties(y)["papr"]
            if pr > lim * (1 + 1e-4) or abs(pm - pr) > 1e-3 * pr:
                res.viol("papr", f"{cfgb},family={nm}", "papr", f"{lay}: PAPR(output) = {pr:.5f} (measure_signal_properties: {pm:.5f}), limit {lim}; input PAPR {papr_of(x):.4f}", {"family": nm})
                break
    # batches: every ordered pair of long signals: each item must satisfy the limit and equal its single-item result
    fam = [T(vs, cplx) for vs in long_signals(cplx).values()]
    for i, a in enumerate(fam):
        for j, b in enumerate(fam):
            X = torch.stack([a, b * 3.0])
            Y = con(X)
            res.ev(2, nontrivial=2, transitions=1)
            for r, src in ((0, a), (1, b * 3.0)):
                if nonsparse(src, lim) and papr_of(Y[r]) > lim * (1 + 1e-4):
                    res.viol("papr", f"{cfgb},shape=BxL", "papr", f"batch item {r} of pair ({i},{j}) has PAPR {papr_of(Y[r]):.5f} > {lim}")
                alone = con(src)
                if float((alone - Y[r]).abs().max()) > 1e-5 * float(alone.abs().max()):
                    res.viol("papr", f"{cfgb},shape=BxL", "item-independent", f"item {r} of pair ({i},{j}) differs from the item processed alone")
    res.sample({"constraint": "papr", "limit": lim, "items": len(items) + len(alpha_items)})


def chains_case(p, res):
    import torch
    import kaira.constraints as KC
    from kaira.constraints.utils import apply_constraint_chain, combine_constraints
    pool = [("total1", lambda: KC.TotalPowerConstraint(1.0)), ("avg2", lambda: KC.AveragePowerConstraint(2.0)), ("peak.8", lambda: KC.PeakAmplitudeConstraint(0.8)),
            ("papr3", lambda: KC.PAPRConstraint(3.0)), ("ident", lambda: KC.IdentityConstraint())]
    X = torch.stack([T(vs, False) for vs in list(long_signals(False).values())[:4]])
    for r in (1, 2, 3):
        for combo in product(range(len(pool)), repeat=r):
            names = [pool[c][0] for c in combo]
            cs = [pool[c][1]() for c in combo]
            comp = KC.CompositeConstraint(cs)
            y1 = comp(X)
            y2 = X
            for c in cs:
                y2 = c(y2)
            y3 = apply_constraint_chain(cs, X)
            y4 = combine_constraints(cs)(X)
            res.ev(1, nontrivial=1, transitions=4)
            if not (torch.equal(y1, y2) and torch.equal(y1, y3) and torch.equal(y1, y4)):
                res.viol("composite", "+".join(names), "composite=sequential", f"CompositeConstraint({names}) differs from sequential application / apply_constraint_chain / combine_constraints")
    # long chains (4 .. 24 stages of non-commuting parts) built by the constructor, grown stage by stage with add_constraint, and half-and-half
    cyc = [("total1.3", lambda: KC.TotalPowerConstraint(1.3)), ("papr2", lambda: KC.PAPRConstraint(2.0)), ("avg0.7", lambda: KC.AveragePowerConstraint(0.7)), ("peak0.9", lambda: KC.PeakAmplitudeConstraint(0.9)),
           ("avg2.2", lambda: KC.AveragePowerConstraint(2.2)), ("peak1.1", lambda: KC.PeakAmplitudeConstraint(1.1)), ("total0.4", lambda: KC.TotalPowerConstraint(0.4))]
    for n_st in (4, 9, 10, 11, 12, 13, 16, 24):
        cs = [cyc[(2 * i + i // 7) % len(cyc)][1]() for i in range(n_st)]
        y2 = X
        for c in cs:
            y2 = c(y2)
        grown = KC.CompositeConstraint([cs[0]])
        for c in cs[1:]:
            grown.add_constraint(c)
        half = KC.CompositeConstraint(cs[:n_st // 2])
        for c in cs[n_st // 2:]:
            half.add_constraint(c)
        for how, comp in (("constructor", KC.CompositeConstraint(cs)), ("add_constraint", grown), ("constructor+add_constraint", half)):
            res.ev(1, nontrivial=1, transitions=n_st)
            yc = comp(X)
            if not torch.equal(yc, y2) or len(comp.constraints) != n_st:
                res.viol("composite", f"{n_st} stages,{how}", "composite=sequential", f"a composite of {n_st} stages built by {how} holds {len(comp.constraints)} stages and {'differs from' if not torch.equal(yc, y2) else 'equals'} sequential application")
    # the same constraint OBJECT used at two positions of a chain (a module registered twice): both applications must happen
    for a in range(len(pool)):
        for b in range(len(pool)):
            if a == b:
                continue
            A, B = pool[a][1](), pool[b][1]()
            chain = [A, B, A]
            y1 = KC.CompositeConstraint(chain)(X)
            comp2 = KC.CompositeConstraint([A])
            comp2.add_constraint(B)
            comp2.add_constraint(A)
            y2 = A(B(A(X)))
            res.ev(1, nontrivial=1, transitions=3)
            if not (torch.equal(y1, y2) and torch.equal(comp2(X), y2)):
                res.viol("composite", f"{pool[a][0]}+{pool[b][0]}+{pool[a][0]}(same instance)", "composite=sequential", "a chain that uses the same constraint instance twice differs from sequential application")
    # the helpers do not change what they are given: after combine_constraints / apply_constraint_chain / CompositeConstraint(...) has been
    # called with a composite (or plain constraint) among its arguments, that argument still does exactly what it did before, and the combined
    # object is the sequential application of its parts
    from kaira.constraints.utils import create_mimo_constraints, create_ofdm_constraints
    makers = [("ofdm", lambda: create_ofdm_constraints(total_power=1.0, max_papr=4.0)), ("mimo", lambda: create_mimo_constraints(num_antennas=2, total_power=2.0)),
              ("composite", lambda: KC.CompositeConstraint([KC.AveragePowerConstraint(2.0), KC.PeakAmplitudeConstraint(0.8)])),
              ("combined", lambda: combine_constraints([KC.TotalPowerConstraint(1.0), KC.PAPRConstraint(3.0)])), ("plain", lambda: KC.TotalPowerConstraint(1.0))]
    Xc = torch.stack([T(vs, False) for vs in list(long_signals(False).values())[:4]]).reshape(4, 2, -1)
    for mname, mkc in makers:
        for pos in ("first", "last", "middle"):
            for how in ("combine_constraints", "CompositeConstraint", "apply_constraint_chain"):
                try:
                    comp = mkc()
                    before = comp(Xc)
                    extra, extra2 = KC.TotalPowerConstraint(4.0), KC.AveragePowerConstraint(0.3)
                    parts = {"first": [comp, extra], "last": [extra, comp], "middle": [extra2, comp, extra]}[pos]
                    if how == "combine_constraints":
                        combined = combine_constraints(parts)
                        yc = combined(Xc)
                    elif how == "CompositeConstraint":
                        combined = KC.CompositeConstraint(parts)
                        yc = combined(Xc)
                    else:
                        yc = apply_constraint_chain(parts, Xc)
                    after = comp(Xc)
                    seq = Xc
                    for c_ in parts:
                        seq = c_(seq)
                except Exception as e:  # noqa: BLE001
                    res.viol("composite", f"{mname},{pos},{how}", "raises", f"{type(e).__name__}: {str(e)[:160]}")
                    continue
                res.ev(1, nontrivial=1, transitions=4)
                if not torch.equal(before, after):
                    res.viol("composite", f"{mname},{pos},{how}", "argument-intact", f"a {mname} constraint passed ({pos}) to {how} behaves differently afterwards: item powers "
                             f"{[round(v_, 4) for v_ in item_power(before, 'total')]} before, {[round(v_, 4) for v_ in item_power(after, 'total')]} after")
                elif not torch.allclose(yc, seq, rtol=1e-6, atol=1e-7):
                    res.viol("composite", f"{mname},{pos},{how}", "composite=sequential", f"{how}({pos}: {mname}) differs from applying its parts one after the other")
    # factories hand out independent objects: editing one composite (add_constraint) leaves a second one, built with the same arguments before
    # or after the edit, as the factory documents it
    facs = [("ofdm", lambda: create_ofdm_constraints(total_power=1.0, max_papr=4.0)), ("mimo", lambda: create_mimo_constraints(num_antennas=2, uniform_power=0.25, max_papr=3.0)),
            ("mimo-total", lambda: create_mimo_constraints(num_antennas=2, total_power=2.0)), ("combined", lambda: combine_constraints([KC.TotalPowerConstraint(1.0), KC.PAPRConstraint(3.0)]))]
    for fname, fmk in facs:
        try:
            first = fmk()
            ref_out = first(Xc)
            second_before = fmk()
            first.add_constraint(KC.AveragePowerConstraint(7.0))
            second_after = fmk()
            outs = {"built before the edit": second_before(Xc), "built after the edit": second_after(Xc)}
        except Exception as e:  # noqa: BLE001
            res.viol("composite", f"{fname},independent", "raises", f"{type(e).__name__}: {str(e)[:160]}")
            continue
        res.ev(2, nontrivial=2, transitions=5)
        for when, o in outs.items():
            if not torch.equal(o, ref_out):
                res.viol("composite", f"{fname},independent", "argument-intact", f"a second {fname} composite ({when} of the first one) behaves like the edited first one: item powers {[round(v_, 4) for v_ in item_power(o, 'total')]}, "
                         f"the factory's own result gives {[round(v_, 4) for v_ in item_power(ref_out, 'total')]}")
    res.sample({"chains": 155 + 20, "helper_purity": len(makers) * 9})


def ofdm_case(p, res):
    import torch
    from kaira.constraints.utils import create_ofdm_constraints
    fam = long_signals(True)
    for P in (1.0, 10.0):
        for papr in (3.0, 6.0):
            for peak, isc in ((None, True), (0.5, True), (1.2, True), (None, False), (1.2, False)):
                cfg = f"P={P},papr={papr},peak={peak},is_complex={int(isc)}"
                con = create_ofdm_constraints(total_power=P, max_papr=papr, peak_amplitude=peak, is_complex=isc)
                for cplx in (False, True):
                    sigs = long_signals(cplx)
                    for nm, vs in sigs.items():
                        for sc in (1e-2, 1.0, 1e2):
                            x = T(vs, cplx) * sc
                            n = x.numel()
                            if peak is not None and cplx:
                                continue  # the clamp behind the peak constraint is real-valued
                            if not nonsparse(x, papr):
                                continue
                            X = torch.stack([x, x.flip(0) * 2.0])
                            try:
                                Y = con(X)
                            except Exception as e:  # noqa: BLE001
                                res.viol("factory-ofdm", cfg, "raises", f"{type(e).__name__}: {str(e)[:200]}")
                                continue
                            res.ev(2, nontrivial=2, transitions=1)
                            for r in range(2):
                                y = Y[r]
                                pw = float((y.abs().double() ** 2).sum())
                                probs = []
                                if pw > P * (1 + 1e-4):
                                    probs.append(f"total power {pw:.5g} > {P}")
                                if papr_of(y) > papr * (1 + 1e-4):
                                    probs.append(f"PAPR {papr_of(y):.5g} > {papr}")
                                if peak is not None and float(y.abs().max()) > peak * (1 + 1e-5):
                                    probs.append(f"peak amplitude {float(y.abs().max()):.5g} > {peak}")
                                if peak is None and abs(pw - P) > 1e-3 * P:
                                    probs.append(f"total power {pw:.5g} != {P}")
                                if probs:
                                    res.viol("factory-ofdm", cfg, "factory-joint", f"family {nm} x{sc} item {r}: " + "; ".join(probs), {"family": nm, "scale": sc})
    res.sample({"factory": "create_ofdm_constraints"})


def mimo_case(p, res):
    import torch
    from kaira.constraints.utils import create_mimo_constraints
    A = 3
    for kind, val in (("uniform", 0.25), ("uniform", 2.0), ("total", 1.0), ("total", 30.0)):
        for papr in (None, 3.0, 6.0):
            cfg = f"{kind}={val},papr={papr}"
            con = create_mimo_constraints(num_antennas=A, uniform_power=val if kind == "uniform" else None, total_power=val if kind == "total" else None, max_papr=papr)
            for cplx in (False, True):
                sigs = list(long_signals(cplx).items())
                for i in range(len(sigs)):
                    trio = [sigs[(i + d) % len(sigs)] for d in range(A)]
                    if not all(nonsparse(T(v, cplx), papr) for _, v in trio):
                        continue
                    x = torch.stack([T(v, cplx) for _, v in trio])             # (A, L)
                    X = torch.stack([x, x.flip(0) * 5.0])                       # (B, A, L)
                    try:
                        Y = con(X)
                    except Exception as e:  # noqa: BLE001
                        res.viol("factory-mimo", cfg, "raises", f"{type(e).__name__}: {str(e)[:200]}")
                        continue
                    res.ev(2, nontrivial=2, transitions=1)
                    for r in range(2):
                        y = Y[r]
                        probs = []
                        if kind == "uniform":
                            pa = (y.abs().double() ** 2).mean(dim=1).tolist()
                            if max(pa) > val * (1 + 1e-4):
                                probs.append(f"per-antenna powers {pa} > {val}")
                            if papr is None and max(abs(t - val) for t in pa) > 1e-3 * val:
                                probs.append(f"per-antenna powers {pa} != {val}")
                        else:
                            pw = float((y.abs().double() ** 2).sum())
                            if pw > val * (1 + 1e-4) or (papr is None and abs(pw - val) > 1e-3 * val):
                                probs.append(f"total power {pw:.5g} vs {val}")
                        if papr is not None and papr_of(y) > papr * (1 + 1e-4):
                            probs.append(f"PAPR {papr_of(y):.5g} > {papr}")
                        if probs:
                            res.viol("factory-mimo", cfg, "factory-joint", f"families {[n for n, _ in trio]} item {r}: " + "; ".join(probs))
    res.sample({"factory": "create_mimo_constraints"})


# ----------------------------------------------------------------------------- spelling equivalence of the constructors behind this property
# (positional / keyword / mixed spellings of one legal call configure the same object; shared helper kmc/spelling.py)
_cases0, _execute0, _component0 = cases, execute, component_of


def cases(tier, seed):  # noqa: F811
    yield from _cases0(tier, seed)
    yield f"{PID}|spelling", {"kind": "spelling", "tier": tier}


def execute(p, res):  # noqa: F811
    if p.get("kind") == "spelling":
        from kmc import spelling
        return spelling.run(PID, res)
    return _execute0(p, res)


def component_of(p):  # noqa: F811
    return "spelling" if p.get("kind") == "spelling" else _component0(p)


# ----------------------------------------------------------------------------- life-cycle equivalence of the components behind this property
# (deep copy / pickle / state_dict / eval-train / cast round trip / no_grad ... leave the behaviour unchanged; shared helper kmc/lifecycle.py)
_cases1, _execute1, _component1 = cases, execute, component_of


def cases(tier, seed):  # noqa: F811
    yield from _cases1(tier, seed)
    yield f"{PID}|lifecycle", {"kind": "lifecycle", "tier": tier}


def execute(p, res):  # noqa: F811
    if p.get("kind") == "lifecycle":
        from kmc import lifecycle
        return lifecycle.run(PID, res)
    return _execute1(p, res)


def component_of(p):  # noqa: F811
    return "lifecycle" if p.get("kind") == "lifecycle" else _component1(p)
