"""C10 – soft-input decoders: clean input decodes clean; BP exact on forests; min-sum rule; Wagner is ML (E1)."""
from itertools import permutations, product

from kmc import catalogue as C
from kmc.ref import gf2

PID = "C10"
ENGINE = "kmc-E1-space"
RULE = ("BP / min-sum: every parity-check matrix with row weights >= 2 whose Tanner graph is a forest (n<=4 all, n=5 rotating shard quick; n<=5 all, "
        "n=6 shard thorough) + deterministic trees up to n=12 + the bundled 3x6 code, built both as LDPCCodeEncoder(H) and "
        "LinearBlockCodeEncoder(G, check_matrix=H), x iterations x exact/Taylor arctanh; inputs: every codeword at six magnitudes, every LLR "
        "vector over {+-0.4,+-1.1,+-2.3}^n compared with brute-force bitwise posteriors, every single weak wrong-sign perturbation; min-sum "
        "rule on single-check codes for every LLR vector; Wagner: every sign pattern x every assignment of n distinct magnitudes (n<=5) vs "
        "brute-force soft ML; soft Reed-Muller on every codeword; a state is one (decoder configuration, input vector); non-trivial = not all-positive LLRs")
ASSUME = ["brute-force posterior / soft-ML references in float64 (numpy) over the code's full codeword list",
          "Taylor-arctanh mode is an advertised approximation: exactness only required for |LLR| <= 0.5"]
HORIZON = {"quick": 300, "thorough": 3600}
MAGS = [0.5, 1.0, 2.0, 5.0, 20.0, 50.0]
EXT = [1e-30, 1e-20, 1e-8, 1e-3, 1e4, 1e20]          # "of any positive magnitude": far outside the usual range as well (normal float32 values)
ALPHA = [0.4, -0.4, 1.1, -1.1, 2.3, -2.3]


def bounds(tier):
    q = tier == "quick"
    return {"forest_H_all_n": 4 if q else 5, "forest_H_shard_n": 5 if q else 6, "trees_up_to_n": 12, "wagner_k_full_assignment": "n<=5",
            "wagner_k": "1..8" if q else "1..10", "rm_m": "<=4" if q else "<=5", "exactness_alphabet": ALPHA}


# ----------------------------------------------------------------------------- code enumeration
def is_forest(rows, n):
    parent = list(range(n + len(rows)))

    def find(x):
        while parent[x] != x:
            parent[x] = parent[parent[x]]
            x = parent[x]
        return x
    for ci, r in enumerate(rows):
        for v in range(n):
            if (r >> v) & 1:
                a, b = find(v), find(n + ci)
                if a == b:
                    return False
                parent[a] = b
    return True


def forests(n, mmax):
    heavy = [r for r in range(1, 1 << n) if gf2.weight(r) >= 2]
    for m in range(1, mmax + 1):
        for rows in product(heavy, repeat=m):
            if is_forest(rows, n) and n - gf2.rank(list(rows)) >= 1:
                yield rows


def trees():
    """deterministic tree-structured H up to n=12: paths, stars, caterpillars (rows as bitmasks)"""
    out = []
    for n in (6, 8, 10, 12):
        out.append((f"path{n}", n, [(1 << i) | (1 << (i + 1)) for i in range(n - 1)][: n - 2]))
        out.append((f"star{n}", n, [1 | (1 << i) for i in range(1, n - 1)]))
        out.append((f"cat{n}", n, [(1 << i) | (1 << (i + 1)) | (1 << (i + 2)) for i in range(0, n - 2, 2)]))
        out.append((f"big{n}", n, [sum(1 << i for i in range(0, n // 2 + 1)), sum(1 << i for i in range(n // 2, n))]))
    return [(nm, n, rows) for nm, n, rows in out if is_forest(rows, n)]


def cases(tier, seed):
    q = tier == "quick"
    groups = []
    alln = 4 if q else 5
    for n in range(2, alln + 1):
        for rows in forests(n, 3):
            groups.append((f"H={C.mat_str(rows, n)}", n, list(rows), "exact"))
    shard_n = alln + 1
    sh = [r for r in forests(shard_n, 3)]
    nsh = 40 if q else 16
    for i, rows in enumerate(sh):
        if (i + seed) % nsh == 0:
            groups.append((f"H={C.mat_str(rows, shard_n)}", shard_n, list(rows), "exact"))
    for nm, n, rows in trees():
        groups.append((f"H={nm}", n, rows, "structured"))
    per = 12
    small = [g for g in groups if g[3] != "structured"]
    for i in range(0, len(small), per):
        yield f"C10|bp|{i // per:04d}|{small[i][0]}..", {"kind": "bp", "codes": small[i:i + per], "tier": tier}
    for g in groups:
        if g[3] == "structured":
            yield f"C10|bp|tree|{g[0]}", {"kind": "bp", "codes": [g], "tier": tier}
    yield "C10|bp|bundled3x6", {"kind": "bp", "codes": [("H=doc3x6", 6, [0b001011, 0b010110, 0b100101], "clean-only")], "tier": tier}
    # redundant checks (more checks than code bits, cycles): clean input still decodes clean
    red = [("H=rep6-7checks", 6, [0b000011, 0b000110, 0b000101, 0b011000, 0b110000, 0b101000, 0b001100]),
           ("H=rep4-6checks", 4, [0b0011, 0b0101, 0b0110, 0b1001, 0b1010, 0b1100]),
           ("H=ham7x7", 7, [0b0011011, 0b0101101, 0b0110110, 0b1001110, 0b1010101, 0b1100011, 0b1111000]),
           ("H=spc3-dup", 3, [0b111, 0b111, 0b111, 0b111])]
    for nm, n, rows in red:
        yield f"C10|bp|redundant|{nm}", {"kind": "bp", "codes": [(nm, n, rows, "clean-only")], "tier": tier}
    # graphs WITH cycles and variable degree 3 / 5 (circulant (3,6)- and (5,10)-regular checks, n = 12 and 24) at large iteration counts: the message
    # magnitudes grow geometrically with the iterations, the clean decoding must survive that
    for nm in ("reg3x6-n12", "reg3x6-n24", "reg5x10-n24"):
        yield f"C10|bp|regular|{nm}", {"kind": "regular", "name": nm, "tier": tier}
    for d in range(2, 6):
        yield f"C10|minsum-rule|deg={d}", {"kind": "minsum-rule", "deg": d, "tier": tier}
    for k in range(1, (8 if q else 10) + 1):
        yield f"C10|wagner|k={k}", {"kind": "wagner", "k": k, "tier": tier}
    M = 4 if q else 5
    for m in range(1, M + 1):
        yield f"C10|soft-rm|m={m}", {"kind": "soft-rm", "rs": list(range(0, m)) + list(range(m - 2, -1, -1)), "m": m, "tier": tier}


def component_of(p):
    return {"bp": "bp", "minsum-rule": "minsum", "wagner": "wagner", "soft-rm": "soft-rm", "regular": "bp"}[p["kind"]]


def execute(p, res):
    {"bp": bp_case, "minsum-rule": minsum_rule, "wagner": wagner_case, "soft-rm": softrm_case, "regular": regular_case}[p["kind"]](p, res)


# ----------------------------------------------------------------------------- references
def regular_case(p, res):
    import torch
    from kaira.models.fec import decoders as D
    from kaira.models.fec import encoders as E
    nm = p["name"]
    half = 6 if nm.endswith("n12") else 12
    shifts = {"reg3x6-n12": ((0, 1, 3), (0, 2, 5)), "reg3x6-n24": ((0, 1, 3), (0, 2, 7)), "reg5x10-n24": ((0, 1, 3, 7, 9), (0, 2, 5, 6, 10))}[nm]
    H = torch.zeros(half, 2 * half)
    for r in range(half):
        for blk, sh in enumerate(shifts):
            for s_ in sh:
                H[r, blk * half + (r + s_) % half] = 1.0
    enc = E.LDPCCodeEncoder(check_matrix=H)
    n, k = int(enc.code_length), int(enc.code_dimension)
    msgs = [[(i >> j) & 1 for j in range(k)] for i in (range(1 << k) if k <= 7 else [0, (1 << k) - 1] + [1 << j for j in range(k)] + [(0x5A5A5 * (j + 1)) % (1 << k) for j in range(24)])]
    X = torch.tensor(msgs, dtype=torch.float32)
    cw = enc(X)
    iters_list = (10, 60, 200) if p["tier"] == "quick" else (10, 60, 200, 400)
    for iters in iters_list:
        decs = [("bp,atanh=1", "bp", lambda: D.BeliefPropagationDecoder(enc, bp_iters=iters))]
        for a, b_, nz in ((1.0, 0.0, False), (0.8, 0.0, False), (1.0, 0.2, False), (1.0, 0.0, True)):
            decs.append((f"minsum,a={a},b={b_},norm={int(nz)}", "minsum", lambda a=a, b_=b_, nz=nz: D.MinSumLDPCDecoder(enc, bp_iters=iters, scaling_factor=a, offset=b_, normalized=nz)))
        for dname, comp, mk in decs:
            cfg = f"{nm},{dname},it={iters}"
            dec = mk()
            for mag in (0.5, 4.0, 50.0):
                try:
                    out = dec((1 - 2 * cw) * mag)
                except Exception as e:  # noqa: BLE001
                    res.viol(comp, cfg, "raises", f"clean LLRs magnitude {mag}: {type(e).__name__}: {str(e)[:200]}")
                    break
                res.ev(len(msgs), nontrivial=len(msgs) - 1, transitions=1)
                if tuple(out.shape) != tuple(X.shape) or not torch.equal(out.to(torch.float32), X):
                    i = 0 if tuple(out.shape) != tuple(X.shape) else int((out.to(torch.float32) != X).any(dim=1).nonzero()[0])
                    res.viol(comp, cfg, "clean", f"[{n},{k}] code, {iters} iterations: noise-free LLRs (magnitude {mag}) of message {msgs[i]} decoded to {out[i].tolist() if out.dim() == 2 else tuple(out.shape)}", {"mag": mag, "iters": iters})
                    break
    # one call of 5003 rows (codewords in an irregular order, magnitudes varying from row to row): row i is decoded as it is decoded alone
    order = [(7 * i + i // 3) % len(msgs) for i in range(5003)]
    mags = torch.tensor([[0.5 + 0.37 * ((11 * i) % 29)] for i in range(5003)], dtype=torch.float32)
    Xb, Cb = X[order], cw[order]
    for dname, comp, mk in (("bp,atanh=1", "bp", lambda: D.BeliefPropagationDecoder(enc, bp_iters=10)), ("minsum", "minsum", lambda: D.MinSumLDPCDecoder(enc, bp_iters=10)),
                            ("minsum,norm=1", "minsum", lambda: D.MinSumLDPCDecoder(enc, bp_iters=10, normalized=True))):
        cfg = f"{nm},{dname},rows=5003"
        try:
            dec = mk()
            out = dec((1 - 2 * Cb) * mags)
            soft_big = dec((1 - 2 * Cb) * mags, return_soft=True)
            soft_one = dec(((1 - 2 * Cb) * mags)[4500:4503], return_soft=True)
        except Exception as e:  # noqa: BLE001
            res.viol(comp, cfg, "raises", f"{type(e).__name__}: {str(e)[:200]}")
            continue
        res.ev(5003, nontrivial=5003, transitions=3)
        if tuple(out.shape) != tuple(Xb.shape) or not torch.equal(out.to(torch.float32), Xb):
            i = 0 if tuple(out.shape) != tuple(Xb.shape) else int((out.to(torch.float32) != Xb).any(dim=1).nonzero()[0])
            res.viol(comp, cfg, "clean", f"row {i} of a batch of 5003 noise-free words (message {Xb[i].tolist()}) decoded to {out[i].tolist() if out.dim() == 2 else tuple(out.shape)}", {"row": i})
        elif isinstance(soft_big, tuple) and isinstance(soft_one, tuple) and not torch.allclose(soft_big[1][4500:4503], soft_one[1], rtol=1e-5, atol=1e-5):
            res.viol(comp, cfg, "clean", "soft outputs of rows 4500..4502 differ between the batch of 5003 and the same rows decoded alone")
    res.outcome((nm, n, k))
    res.sample({"code": nm, "n": n, "k": k, "iterations": list(iters_list)})


def posteriors(codewords, n, L):
    """brute-force bitwise posterior LLRs. codewords: list of ints; L: (B,n) numpy float64 -> (B,n) (inf where a bit is constant)"""
    import numpy as np
    Cm = np.array([gf2.bits(c, n) for c in codewords], dtype=np.float64)       # (|C|, n)
    S = 1.0 - 2.0 * Cm
    logw = (S @ L.T) / 2.0                                                     # (|C|, B)
    out = np.empty_like(L)
    for i in range(n):
        m0 = Cm[:, i] == 0
        a = logw[m0]
        b = logw[~m0]
        la = np.logaddexp.reduce(a, axis=0) if a.shape[0] else np.full(L.shape[0], -np.inf)
        lb = np.logaddexp.reduce(b, axis=0) if b.shape[0] else np.full(L.shape[0], -np.inf)
        out[:, i] = la - lb
    return out


def make_encoders(n, rows):
    """-> list of (variant, encoder). H rows as bitmasks."""
    import torch
    from kaira.models.fec import encoders as E
    H = torch.tensor(C.rows_to_lists(rows, n), dtype=torch.float32)
    encs = [("ldpc", E.LDPCCodeEncoder(check_matrix=H.clone()))]
    Gb = gf2.rref(gf2.nullspace(list(rows), n))[0]
    G = torch.tensor(C.rows_to_lists(Gb, n), dtype=torch.float32)
    encs.append(("linear", E.LinearBlockCodeEncoder(G, check_matrix=H.clone())))
    return encs


def bp_case(p, res):
    import numpy as np
    import torch
    from kaira.models.fec import decoders as D
    q = p["tier"] == "quick"
    for cfg0, n, rows, mode in p["codes"]:
        for variant, enc in make_encoders(n, rows):
            k = int(enc.code_dimension)
            code = C.Code(enc)
            msgs = list(range(1 << k))
            cws, _ = code.encode_ints(msgs)
            deg = [sum((r >> v) & 1 for r in rows) for v in range(n)]
            decs = []
            for iters in sorted({n + len(rows), 10, 20}):
                for arct in (True, False):
                    decs.append((f"bp,it={iters},atanh={int(arct)}", "bp", lambda it=iters, a=arct: D.BeliefPropagationDecoder(enc, bp_iters=it, arctanh=a), arct))
            for a, b, nz in ((1.0, 0.0, False), (0.8, 0.0, False), (1.0, 0.2, False), (1.0, 0.0, True)):
                decs.append((f"minsum,a={a},b={b},norm={int(nz)}", "minsum", lambda a=a, b=b, nz=nz: D.MinSumLDPCDecoder(enc, bp_iters=max(10, n + len(rows)), scaling_factor=a, offset=b, normalized=nz), None))
            for dname, comp, mk, arct in decs:
                cfg = f"{cfg0},{variant},{dname}"
                v = lambda clause, detail, focus=None: res.viol(comp, cfg, clause, detail, focus)  # noqa: E731
                try:
                    dec = mk()
                except Exception as e:  # noqa: BLE001
                    v("raises", f"constructor: {type(e).__name__}: {str(e)[:200]}")
                    continue
                # ---- clean clause: every codeword, six magnitudes, one batched call per magnitude
                for mag in MAGS + EXT:
                    if comp == "bp" and not arct and mag > 0.5:
                        continue  # Taylor mode: advertised approximation, only small LLRs required
                    x = torch.tensor([[(1 - 2 * bit) * mag for bit in gf2.bits(c, n)] for c in cws], dtype=torch.float32)
                    try:
                        y = dec(x)
                    except Exception as e:  # noqa: BLE001
                        v("raises", f"clean LLRs magnitude {mag}: {type(e).__name__}: {str(e)[:200]}")
                        break
                    res.ev(len(cws), nontrivial=len(cws) - 1, transitions=1)
                    if not isinstance(y, torch.Tensor) or tuple(y.shape) != (len(cws), k):
                        v("shape", f"plain call (magnitude {mag}, after calls with other magnitudes and with return_soft=True on this decoder) returned "
                          f"{type(y).__name__} {tuple(y.shape) if isinstance(y, torch.Tensor) else [tuple(o.shape) for o in y]} for {len(cws)} blocks, k={k}")
                        break
                    got = C.tensor_to_ints(y)
                    bad = [(m, g) for m, g in zip(msgs, got) if g != m]
                    if bad:
                        m, g = bad[0]
                        v("clean", f"noise-free LLRs (magnitude {mag}) of codeword {gf2.bits(cws[m], n)} (message {gf2.bits(m, k)}) decoded to {None if g is None else gf2.bits(g, k)}", {"m": m, "mag": mag})
                        break
                    if mag in EXT:
                        continue
                    # the same words once more with the per-call option return_soft=True (the next magnitude is a plain call again): the hard part
                    # of the answer is the same clean decoding
                    try:
                        o = dec(x, return_soft=True)
                        res.ev(len(cws), nontrivial=len(cws) - 1, transitions=1)
                        if not (isinstance(o, tuple) and len(o) == 2 and tuple(o[0].shape) == (len(cws), k)):
                            v("shape", f"return_soft=True (clean LLRs magnitude {mag}) returned {type(o).__name__}")
                            break
                        if C.tensor_to_ints(o[0]) != got:
                            v("clean", f"return_soft=True changes the hard decisions on noise-free LLRs (magnitude {mag})")
                            break
                    except Exception as e:  # noqa: BLE001
                        v("raises", f"clean LLRs magnitude {mag}, return_soft=True: {type(e).__name__}: {str(e)[:200]}")
                        break
                if mode == "clean-only":
                    continue
                # ---- weak wrong-sign perturbation at every position that takes part in a check
                if comp == "bp" and arct:
                    rowsx, exp = [], []
                    for m, c in zip(msgs, cws):
                        for i in range(n):
                            if deg[i] >= 1:
                                L = [(1 - 2 * bit) * 2.0 for bit in gf2.bits(c, n)]
                                L[i] = -0.3 * (1 if L[i] > 0 else -1)
                                rowsx.append(L)
                                exp.append(m)
                    if rowsx:
                        try:
                            y = dec(torch.tensor(rowsx, dtype=torch.float32))
                            res.ev(len(rowsx), transitions=1)
                            got = C.tensor_to_ints(y) if y.dim() == 2 and y.shape[1] == k else [None] * len(exp)
                            bad = [i for i, (g, e) in enumerate(zip(got, exp)) if g != e]
                            if bad:
                                v("clean", f"single weak wrong-sign LLR {rowsx[bad[0]]} not decoded to message {gf2.bits(exp[bad[0]], k)}", {"L": rowsx[bad[0]]})
                        except Exception as e:  # noqa: BLE001
                            v("raises", f"perturbed LLRs: {type(e).__name__}: {str(e)[:200]}")
                # ---- exactness on forests (BP) / scale invariance (min-sum)
                if comp == "bp":
                    alpha = ALPHA if arct else [0.2, -0.2, 0.5, -0.5]
                    if mode == "exact" and len(alpha) ** n <= 50000:
                        Ls = list(product(alpha, repeat=n))
                    else:
                        # larger trees: magnitudes small enough that every true BP message stays inside the +-7.6 clipping range
                        small = [0.2, 0.35, 0.5]
                        base = [small[i % 3] for i in range(n)]
                        Ls = [tuple(bv * (1 - 2 * ((s >> i) & 1)) for i, bv in enumerate(base)) for s in range(1 << min(n, 10))]
                    if q and len(Ls) > 2000 and dname != f"bp,it={n + len(rows)},atanh=1":
                        Ls = Ls[::7]
                    Lt = torch.tensor(Ls, dtype=torch.float32)
                    try:
                        out = dec(Lt, return_soft=True)
                    except Exception as e:  # noqa: BLE001
                        v("raises", f"return_soft=True: {type(e).__name__}: {str(e)[:200]}")
                        continue
                    res.ev(len(Ls), nontrivial=len(Ls) - 1, transitions=1)
                    if not isinstance(out, tuple) or len(out) != 2 or tuple(out[1].shape) != (len(Ls), n):
                        v("shape", f"return_soft=True returned {type(out).__name__} / shapes {[tuple(o.shape) for o in out] if isinstance(out, tuple) else None}")
                        continue
                    soft = out[1].to(torch.float64).numpy()
                    ref = posteriors(cws, n, np.array(Ls, dtype=np.float64))
                    fin = np.isfinite(ref)
                    err = np.where(fin, np.abs(soft - np.where(fin, ref, 0.0)), 0.0)
                    tol = 1e-3 + 1e-3 * np.abs(np.where(fin, ref, 0.0))
                    badm = err > tol
                    if badm.any():
                        bi, bj = [int(t) for t in np.argwhere(badm)[0]]
                        v("exact-posterior", f"LLR input {list(Ls[bi])}: soft output bit {bj} = {soft[bi, bj]:.5f}, brute-force posterior = {ref[bi, bj]:.5f} ({int(badm.sum())} of {badm.size} entries off)", {"L": list(Ls[bi])})
                    # hard output consistent with own soft output sign
                    hard = C.tensor_to_ints(out[0]) if out[0].dim() == 2 else None
                else:
                    a_, b_ = (0.75, 0.2) if "norm=1" in dname else (float(dname.split("a=")[1].split(",")[0]), float(dname.split("b=")[1].split(",")[0]))
                    if b_ == 0.0:
                        base = list(product([0.41, -1.13, 2.29, -0.77], repeat=min(n, 5)))  # no signed subset sums to zero (ties)
                        Ls = [tuple(bv[i % len(bv)] * (1.0 + 0.0931 * (2 + 3 * i) ** 0.5) for i in range(n)) for bv in base]  # irrational factors: no exact ties
                        Lt = torch.tensor(Ls, dtype=torch.float32)
                        try:
                            o1 = dec(Lt, return_soft=True)
                            for sc in (0.1, 3.0, 10.0):  # stays inside the decoder's +-500 numerical clamp
                                o2 = dec(Lt * sc, return_soft=True)
                                res.ev(len(Ls), transitions=1)
                                if not torch.equal(o1[0], o2[0]):
                                    i = int((o1[0] != o2[0]).any(dim=1).nonzero()[0])
                                    v("scale-invariant", f"hard output changes under L -> {sc}*L for L={list(Ls[i])}", {"L": list(Ls[i]), "scale": sc})
                                    break
                                if not torch.allclose(o1[1] * sc, o2[1], rtol=1e-4, atol=1e-5 * sc):
                                    i = int((~torch.isclose(o1[1] * sc, o2[1], rtol=1e-4, atol=1e-5 * sc)).any(dim=1).nonzero()[0])
                                    v("scale-invariant", f"soft output is not scaled by {sc} under L -> {sc}*L for L={list(Ls[i])}: {o1[1][i].tolist()} vs {o2[1][i].tolist()}", {"L": list(Ls[i]), "scale": sc})
                                    break
                        except Exception as e:  # noqa: BLE001
                            v("raises", f"scale invariance run: {type(e).__name__}: {str(e)[:200]}")
            res.outcome((n, k, len(rows)))
    res.sample({"codes": [c[0] for c in p["codes"]][:3], "n_codes": len(p["codes"])})


def minsum_rule(p, res):
    """one-iteration decode of a single-check code: posterior_i = L_i + a * prod_{j!=i} sign L_j * min_{j!=i}|L_j| - b*sign(.)"""
    import torch
    from kaira.models.fec import decoders as D
    d = p["deg"]
    n = d
    rows = [(1 << d) - 1]
    for variant, enc in make_encoders(n, rows):
        # normalized=True is documented to override scaling_factor and offset with (0.75, 0.2), whatever else is passed
        for a, b, nz in ((1.0, 0.0, False), (0.8, 0.0, False), (1.0, 0.2, False), (0.875, 0.3, False), (1.0, 0.0, True), (0.875, 0.0, True), (1.0, 0.5, True), (0.5, 0.1, True)):
            cfg = f"deg={d},{variant},a={a},b={b},norm={int(nz)}"
            try:
                dec = D.MinSumLDPCDecoder(enc, bp_iters=1, scaling_factor=a, offset=b, normalized=nz)
                Ls = list(product(ALPHA, repeat=n))
                out = dec(torch.tensor(Ls, dtype=torch.float32), return_soft=True)
            except Exception as e:  # noqa: BLE001
                res.viol("minsum", cfg, "raises", f"{type(e).__name__}: {str(e)[:200]}")
                continue
            res.ev(len(Ls), nontrivial=len(Ls) - 1, transitions=1)
            if not isinstance(out, tuple) or tuple(out[1].shape) != (len(Ls), n):
                res.viol("minsum", cfg, "shape", f"return_soft output {type(out).__name__}")
                continue
            aa, bb = (0.75, 0.2) if nz else (a, b)
            soft = out[1].tolist()
            nbad = 0
            for L, S in zip(Ls, soft):
                for i in range(n):
                    others = [L[j] for j in range(n) if j != i]
                    sg = 1.0
                    for o in others:
                        sg *= 1.0 if o > 0 else -1.0
                    mag = aa * min(abs(o) for o in others) - bb
                    want = L[i] + sg * mag
                    if abs(S[i] - want) > 1e-4 + 1e-4 * abs(want):
                        nbad += 1
                        if nbad == 1:
                            res.viol("minsum", cfg, "minsum-rule", f"L={list(L)}: posterior of bit {i} after one iteration = {S[i]:.5f}, min-sum rule gives {L[i]} + {sg:+.0f}*({aa}*min|L_j| - {bb}) = {want:.5f}", {"L": list(L)})
    res.sample({"check_degree": d, "vectors": len(ALPHA) ** d})


def wagner_case(p, res):
    import torch
    from kaira.models.fec import decoders as D
    from kaira.models.fec import encoders as E
    k = p["k"]
    n = k + 1
    enc = E.SingleParityCheckCodeEncoder(k)
    cfg = f"k={k}"
    v = lambda clause, detail, focus=None: res.viol("wagner", cfg, clause, detail, focus)  # noqa: E731
    try:
        dec = D.WagnerSoftDecisionDecoder(enc)
    except Exception as e:  # noqa: BLE001
        v("raises", f"constructor: {type(e).__name__}: {e}")
        return
    code = C.Code(enc)
    msgs = list(range(1 << k))
    cws, _ = code.encode_ints(msgs)
    mags = [0.3 + 0.7 * i + 0.013 * i * i for i in range(n)]          # n distinct magnitudes, no ties
    if n <= 5:
        assigns = list(permutations(mags))
    else:
        rot = [mags[i:] + mags[:i] for i in (0, 1, n // 2)]
        assigns = rot + [list(reversed(r)) for r in rot]
    Ls = [[m * (1 - 2 * ((s >> i) & 1)) for i, m in enumerate(a)] for a in assigns for s in range(1 << n)]
    # erased / punctured positions: exactly-zero LLRs (one zero at every position, two zeros at the ends) under every sign pattern of the rest
    for z in [(i,) for i in range(n)] + ([(0, n - 1)] if n > 2 else []):
        for s in range(1 << n):
            Ls.append([0.0 if i in z else mags[i] * (1 - 2 * ((s >> i) & 1)) for i in range(n)])

    def corr(c, L):
        return sum((1 - 2 * ((c >> i) & 1)) * L[i] for i in range(n))

    def ml(L):
        """set of messages whose codeword attains the maximum correlation (ties are free)"""
        best = max(corr(c, L) for c in cws)
        return {m for m, c in zip(msgs, cws) if corr(c, L) >= best - 1e-9}
    exp = [ml(L) for L in Ls]
    # layouts: (B,n) all vectors; 1-D for a subset; (B,2n) pairs
    for layout in ("B,n", "1d", "B,2n"):
        try:
            if layout == "B,n":
                y = dec(torch.tensor(Ls, dtype=torch.float32))
                got = C.tensor_to_ints(y) if y.dim() == 2 and y.shape[1] == k else None
                want = exp
            elif layout == "1d":
                idx = list(range(0, len(Ls), max(1, len(Ls) // 40)))
                got, want = [], [exp[i] for i in idx]
                for i in idx:
                    y = dec(torch.tensor(Ls[i], dtype=torch.float32))
                    got.append(C.tensor_to_ints(y.reshape(1, -1))[0] if tuple(y.shape) == (k,) else None)
            else:
                m2 = len(Ls) // 2 * 2
                y = dec(torch.tensor([Ls[i] + Ls[i + 1] for i in range(0, m2, 2)], dtype=torch.float32))
                if y.dim() == 2 and y.shape[1] == 2 * k:
                    got = C.tensor_to_ints(y.reshape(-1, k))
                else:
                    got = None
                want = exp[:m2]
        except Exception as e:  # noqa: BLE001
            v("raises", f"layout {layout}: {type(e).__name__}: {str(e)[:200]}", {"layout": layout})
            continue
        res.ev(len(want), nontrivial=len(want) - 1, transitions=1)
        if got is None:
            v("shape", f"layout {layout}: unexpected output shape {tuple(y.shape)}", {"layout": layout})
            continue
        bad = [i for i, (g, e) in enumerate(zip(got, want)) if g not in e]
        if bad:
            i = bad[0]
            v("wagner-ml", f"layout {layout}: {len(bad)}/{len(want)} inputs not decoded to a maximum-likelihood even-parity word, e.g. item {i}: got {None if got[i] is None else gf2.bits(got[i], k)}, ML message(s) {[gf2.bits(t, k) for t in sorted(want[i])]}", {"layout": layout, "i": i})
    # noise-free clause
    for mag in MAGS + EXT:
        y = dec(torch.tensor([[(1 - 2 * bit) * mag for bit in gf2.bits(c, n)] for c in cws], dtype=torch.float32))
        res.ev(len(cws), transitions=1)
        if C.tensor_to_ints(y) != msgs:
            v("clean", f"noise-free LLRs at magnitude {mag} not decoded to the message")
    res.sample({"k": k, "vectors": len(Ls), "assignments": len(assigns)})


def softrm_case(p, res):
    # all orders of one length in ONE process (ascending, then descending with fresh objects): decoder state shared between instances is exposed
    for r in p["rs"]:
        _softrm_one(r, p["m"], res)


def _softrm_one(r, m, res):
    import torch
    from kaira.models.fec import decoders as D
    from kaira.models.fec import encoders as E
    enc = E.ReedMullerCodeEncoder(r, m)
    cfg = f"r={r},m={m}"
    n, k = int(enc.code_length), int(enc.code_dimension)
    try:
        dec = D.ReedMullerDecoder(enc, input_type="soft")
    except Exception as e:  # noqa: BLE001
        res.viol("soft-rm", cfg, "raises", f"constructor: {type(e).__name__}: {str(e)[:200]}")
        return
    code = C.Code(enc)
    msgs = C.message_set(k, full_limit=11)
    cws, _ = code.encode_ints(msgs)
    for mag in MAGS + EXT:
        x = torch.tensor([[(1 - 2 * bit) * mag for bit in gf2.bits(c, n)] for c in cws], dtype=torch.float32)
        try:
            y = dec(x)
        except Exception as e:  # noqa: BLE001
            res.viol("soft-rm", cfg, "raises", f"{type(e).__name__}: {str(e)[:200]}")
            return
        res.ev(len(cws), nontrivial=len(cws) - 1, transitions=1)
        if tuple(y.shape) != (len(cws), k):
            res.viol("soft-rm", cfg, "shape", f"output shape {tuple(y.shape)}")
            return
        got = C.tensor_to_ints(y)
        bad = [i for i, (g, e) in enumerate(zip(got, msgs)) if g != e]
        if bad:
            res.viol("soft-rm", cfg, "clean", f"noise-free LLRs (magnitude {mag}) of message {gf2.bits(msgs[bad[0]], k)} decoded to {None if got[bad[0]] is None else gf2.bits(got[bad[0]], k)}")
            break
    res.sample({"r": r, "m": m, "codewords": len(cws)})


# ----------------------------------------------------------------------------- spelling equivalence of the constructors behind this property
# (positional / keyword / mixed spellings of one legal call configure the same object; shared helper kmc/spelling.py)
_cases0, _execute0, _component0 = cases, execute, component_of


def cases(tier, seed):  # noqa: F811
    yield from _cases0(tier, seed)
    yield f"{PID}|spelling", {"kind": "spelling", "tier": tier}


def execute(p, res):  # noqa: F811
    if p.get("kind") == "spelling":
        from kmc import spelling
        return spelling.run(PID, res)
    return _execute0(p, res)


def component_of(p):  # noqa: F811
    return "spelling" if p.get("kind") == "spelling" else _component0(p)


# ----------------------------------------------------------------------------- life-cycle equivalence of the components behind this property
# (deep copy / pickle / state_dict / eval-train / cast round trip / no_grad ... leave the behaviour unchanged; shared helper kmc/lifecycle.py)
_cases1, _execute1, _component1 = cases, execute, component_of


def cases(tier, seed):  # noqa: F811
    yield from _cases1(tier, seed)
    yield f"{PID}|lifecycle", {"kind": "lifecycle", "tier": tier}


def execute(p, res):  # noqa: F811
    if p.get("kind") == "lifecycle":
        from kmc import lifecycle
        return lifecycle.run(PID, res)
    return _execute1(p, res)


def component_of(p):  # noqa: F811
    return "lifecycle" if p.get("kind") == "lifecycle" else _component1(p)
