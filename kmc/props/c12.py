"""C12 – binary channels follow their transition law and never leave their alphabet (E4 alphabet policy)."""
from itertools import product

PID = "C12"
ENGINE = "kmc-E4-rngseam"
RULE = ("{BSC, BEC, Z} x p in {0,1e-3,0.1,0.5,0.9,0.999,1} x alphabets x dtypes x EVERY input vector of length <= 4 (quick) / 6 (thorough) x shapes "
        "x EVERY answer vector over {p-1e-6, p+1e-6} (+ the extremes 0 and 1-2^-24) served through the RNG seam; a state is one (configuration, "
        "input, answer vector) execution; non-trivial = at least one eligible symbol and one 'below' answer")
ASSUME = ["torch's generators produce i.i.d. U(0,1): with that, 'each eligible symbol is controlled by exactly one private draw with threshold p' IS "
          "'independently with probability p'", "threshold located within 1e-6"]
HORIZON = {"quick": 240, "thorough": 2400}
PS = [0.0, 1e-3, 0.1, 0.5, 0.9, 0.999, 1.0]
TOP = 1.0 - 2.0 ** -24


def bounds(tier):
    return {"input_length": "1..4" if tier == "quick" else "1..6", "p": PS, "delta": 1e-6}


def cases(tier, seed):
    Ls = [1, 2, 3, 4] if tier == "quick" else [1, 2, 3, 4, 5, 6]
    for ch in ("bsc", "bec", "z"):
        for p in PS:
            for alpha in ("01", "pm1"):
                for dt in ("float32", "float64", "float16", "bfloat16", "int64", "bool", "uint8", "int8", "int32"):
                    if dt in ("bool", "uint8") and alpha == "pm1":
                        continue
                    if dt in ("uint8", "int8", "int32") and p not in (0, 0.1, 1):      # the narrow integer types: extremes and one interior value
                        continue
                    yield f"C12|{ch}|p={p},{alpha},{dt}", {"ch": ch, "p": p, "alpha": alpha, "dt": dt, "Ls": Ls}


def component_of(p):
    return p["ch"]


def _long_cases():
    for ch in ("bsc", "bec", "z"):
        for alpha in ("01", "pm1"):
            yield f"C12|{ch}|long,{alpha}", {"ch": ch, "alpha": alpha, "long": True}


def make(ch, p, ers, spelling="default"):
    """spelling: how the legal constructor call is written (positional / keyword / python int for 0 and 1)"""
    from kaira.channels import BinaryErasureChannel, BinarySymmetricChannel, BinaryZChannel
    if spelling == "int" and float(p) in (0.0, 1.0):
        p = int(p)
    if ch == "bsc":
        return BinarySymmetricChannel(crossover_prob=p) if spelling == "keyword" else BinarySymmetricChannel(p)
    if ch == "z":
        return BinaryZChannel(error_prob=p) if spelling == "keyword" else BinaryZChannel(p)
    if ers is None:
        return BinaryErasureChannel(erasure_prob=p) if spelling == "keyword" else BinaryErasureChannel(p)
    if spelling == "keyword":
        return BinaryErasureChannel(erasure_prob=p, erasure_symbol=ers)
    if spelling == "positional":
        return BinaryErasureChannel(p, ers)
    return BinaryErasureChannel(p, erasure_symbol=ers)


def execute(pl, res):
    import torch
    from kmc.rngseam import Alphabet, Seam
    ch, p, alpha, dt = pl["ch"], pl["p"], pl["alpha"], pl["dt"]
    dtype = getattr(torch, dt)
    ers_opts = [None] if ch != "bec" else ([None] if alpha == "01" else [2, 0.5])
    below, above = p - 1e-6, p + 1e-6
    for ers in ers_opts:
        ersv = -1 if ers is None else ers
        cfg = f"p={p},{alpha},{dt}" + (f",ers={ers}" if ers is not None else "")
        v = lambda clause, d, f=None: res.viol(ch, cfg, clause, d, f)  # noqa: E731
        for spelling in ("default", "keyword", "positional", "int", "cast-bfloat16", "cast-half", "cast-double", "cast-to-float64", "eval", "deepcopy"):
            if spelling == "int" and p not in (0.0, 1.0):
                continue
            if spelling == "positional" and ers is None:
                continue
            cfg = f"p={p},{alpha},{dt}" + (f",ers={ers}" if ers is not None else "") + ("" if spelling == "default" else f",{spelling} arguments")
            v = lambda clause, d, f=None, cfg=cfg: res.viol(ch, cfg, clause, d, f)  # noqa: E731
            try:
                if spelling.startswith("cast") or spelling in ("eval", "deepcopy"):
                    # nn.Module conveniences applied after construction: the configured probability stays the configured probability
                    import copy
                    chan = make(ch, p, ers, "default")
                    chan = {"cast-bfloat16": lambda c_: c_.bfloat16(), "cast-half": lambda c_: c_.half(), "cast-double": lambda c_: c_.double(),
                            "cast-to-float64": lambda c_: c_.to(torch.float64), "eval": lambda c_: c_.eval(), "deepcopy": lambda c_: copy.deepcopy(c_)}[spelling](chan)
                else:
                    chan = make(ch, p, ers, spelling)
            except Exception as e:  # noqa: BLE001
                v("raises", f"constructor ({spelling} arguments): {type(e).__name__}: {str(e)[:160]}")
                continue
            for L in (pl["Ls"] if spelling == "default" else [1, 2]):
                vals = (0, 1) if alpha == "01" else (-1, 1)
                one = 1
                for xin in product(vals, repeat=L):
                    if alpha == "pm1" and -1 not in xin:
                        continue            # the bipolar format is recognised by the presence of a -1
                    layouts = [("c", (L,))] + ([("c", (2, L // 2))] if L % 2 == 0 else []) + [("c", (1, 1, L))]
                    # memory layouts: the same logical content presented as a non-contiguous view (transposed, strided slice, channels-last,
                    # stride-0 expanded batch): the law is about logical symbols, whatever the strides
                    if L % 2 == 0 and L >= 4:
                        layouts += [("transposed", (2, L // 2)), ("channels_last", (1, 2, 1, L // 2))]
                    if L >= 2:
                        layouts.append(("strided", (L,)))
                    if L <= 3:
                        layouts.append(("expanded", (2, L)))
                    if L == 4:
                        layouts.append(("permuted", (2, 1, 2)))
                    for lname, shape in layouts:
                        base_t = torch.tensor(xin, dtype=torch.float32).to(dtype)
                        if lname == "c":
                            x = base_t.reshape(shape)
                        elif lname == "transposed":
                            x = base_t.reshape(shape).t().contiguous().t()
                        elif lname == "channels_last":
                            x = base_t.reshape(shape).contiguous(memory_format=torch.channels_last)
                        elif lname == "strided":
                            x = torch.stack([base_t, torch.full_like(base_t, vals[1])], dim=1).reshape(-1)[::2]
                        elif lname == "expanded":
                            x = base_t.reshape(1, L).expand(2, L)
                        else:
                            x = base_t.reshape(2, 2).t().contiguous().t().unsqueeze(1)
                        assert tuple(x.shape) == tuple(shape) and (lname in ("c",) or not x.is_contiguous()), (lname, shape, x.stride())
                        xlog = [int(t) for t in x.reshape(-1).to(torch.float32).tolist()]
                        Ll = len(xlog)
                        eligible = [i for i, s_ in enumerate(xlog) if (ch != "z" or s_ == one)]
                        shape_s = shape if lname == "c" else f"{shape} [{lname} view, strides {tuple(x.stride())}]"
                        x0 = x.clone()
                        D = None
                        # extremes + all {below, above} vectors; D (draws consumed) is learnt from the first run
                        runs = []

                        def run(ans):
                            pol = Alphabet(ans, pad=0.5)
                            with Seam(pol):
                                y = chan(x)
                            return y, pol
                        try:
                            y, pol = run([TOP] * 64)
                        except Exception as e:  # noqa: BLE001
                            v("raises", f"input {xlog}{'' if lname == 'c' else ' as ' + lname + ' view'} shape {shape_s}: {type(e).__name__}: {str(e)[:160]}")
                            break
                        D = pol.served
                        res.transitions += 1
                        if pol.bypassed:
                            res.seam_bypassed += 1          # the channel names its own torch.Generator: the answer-vector clauses cannot be driven
                            continue
                        if D > 12:
                            v("private-draw", f"{D} draws consumed for {Ll} symbols")
                            break
                        vecs = [tuple([TOP] * D), tuple([0.0] * D)]
                        if 0.0 < p < 1.0:
                            vecs += list(product([above, below], repeat=D))
                        changed_of = {}
                        for ans in vecs:
                            y, pol = run(list(ans))
                            res.ev(1, nontrivial=1 if (eligible and any(a < p for a in ans)) else 0, transitions=1)
                            if pol.served != D:
                                v("private-draw", f"number of draws depends on the answers: {pol.served} vs {D}")
                            if not torch.equal(x, x0):
                                v("input-intact", f"input {xlog}{'' if lname == 'c' else ' as ' + lname + ' view'} ({dt}) was modified to {x.reshape(-1).tolist()}")
                                x = x0.clone()
                            if y is x or (y.data_ptr() == x.data_ptr() and y.numel() > 0):
                                v("input-intact", "output aliases the input tensor")
                            if tuple(y.shape) != tuple(shape):
                                v("support", f"output shape {tuple(y.shape)} for input shape {shape_s}")
                                continue
                            yl = [float(t) for t in y.reshape(-1).tolist()]
                            xl = [float(t) for t in xlog]
                            allowed = {float(s) for s in vals} | ({float(ersv)} if ch == "bec" else set())
                            if any(t not in allowed for t in yl):
                                v("support", f"input {xlog}{'' if lname == 'c' else ' as ' + lname + ' view'}, answers {list(ans)}: output {yl} leaves the alphabet {sorted(allowed)}", {"x": xlog, "layout": lname, "ans": list(ans)})
                            changed = frozenset(i for i in range(Ll) if yl[i] != xl[i])
                            changed_of[ans] = changed
                            flipped_ok = all((yl[i] == float(ersv)) if ch == "bec" else (yl[i] == float(vals[0] + vals[1] - xlog[i])) for i in changed)
                            if not flipped_ok:
                                v("support", f"input {xlog}{'' if lname == 'c' else ' as ' + lname + ' view'}: changed symbols are not flipped/erased properly: {yl}", {"x": xlog, "layout": lname, "ans": list(ans)})
                            if ch == "z" and any(xl[i] != float(one) for i in changed):
                                v("z-one-sided", f"Z-channel changed a {vals[0]} : input {xlog}{'' if lname == 'c' else ' as ' + lname + ' view'} -> {yl}", {"x": xlog, "layout": lname, "ans": list(ans)})
                            if ch == "bec" and any(yl[i] != xl[i] and yl[i] != float(ersv) for i in range(Ll)):
                                v("bec-unerased", f"unerased symbol changed: {xlog}{'' if lname == 'c' else ' as ' + lname + ' view'} -> {yl}", {"x": xlog, "layout": lname, "ans": list(ans)})
                            if p == 0.0 and changed:
                                v("p0", f"p=0 but input {xlog}{'' if lname == 'c' else ' as ' + lname + ' view'} -> {yl} (answers {list(ans)})", {"x": xlog, "layout": lname, "ans": list(ans)})
                            if p == 1.0 and changed != frozenset(eligible):
                                v("p1", f"p=1 but input {xlog}{'' if lname == 'c' else ' as ' + lname + ' view'} -> {yl}: changed {sorted(changed)} instead of all eligible {eligible} (answers {list(ans)})", {"x": xlog, "layout": lname, "ans": list(ans)})
                        # private-draw law
                        if 0.0 < p < 1.0:
                            base = tuple([above] * D)
                            if changed_of[base]:
                                v("private-draw", f"all draws above p={p} but symbols {sorted(changed_of[base])} changed (input {xlog}{'' if lname == 'c' else ' as ' + lname + ' view'})", {"x": xlog, "layout": lname})
                            S = []
                            for d in range(D):
                                a = list(base)
                                a[d] = below
                                S.append(changed_of[tuple(a)])
                            if any(len(s) > 1 for s in S):
                                v("private-draw", f"one draw controls several symbols: {[sorted(s) for s in S]} (input {xlog}{'' if lname == 'c' else ' as ' + lname + ' view'})", {"x": xlog, "layout": lname})
                            ctrl = [next(iter(s)) for s in S if len(s) == 1]
                            if sorted(ctrl) != sorted(eligible):
                                v("private-draw", f"draws below p={p} one at a time change symbols {sorted(ctrl)}, eligible symbols are {eligible} (input {xlog}{'' if lname == 'c' else ' as ' + lname + ' view'}, {D} draws)", {"x": xlog, "layout": lname})
                            else:
                                for ans, chg in changed_of.items():
                                    if len(ans) != D or not all(a in (below, above) for a in ans):
                                        continue
                                    want = frozenset().union(*[S[d] for d in range(D) if ans[d] == below]) if D else frozenset()
                                    if chg != want:
                                        v("private-draw", f"answers {['below' if a == below else 'above' for a in ans]}: changed {sorted(chg)}, expected {sorted(want)} (input {xlog}{'' if lname == 'c' else ' as ' + lname + ' view'})", {"x": xlog, "layout": lname, "ans": list(ans)})
                                        break
                            res.outcome((ch, Ll, D, len(eligible)))
        res.sample({"channel": ch, "p": p, "alphabet": alpha, "dtype": dt, "erasure_symbol": ersv})


def long_case(pl, res):
    """one LONG input (2^16+3 symbols, 1-D and as 3 rows) per channel / probability / alphabet under the quantile policy: support and one-sidedness on
    every symbol, p=0 identity, p=1 extreme, and the NUMBER of changed symbols equals the number of eligible symbols whose draw is below p (each
    eligible symbol owns one draw: the count is floor/ceil(p * eligible) whatever the assignment)"""
    import torch
    from kmc.rngseam import Quantile, Seam
    ch, alpha = pl["ch"], pl["alpha"]
    N = (1 << 16) + 3
    lo, hi = (0, 1) if alpha == "01" else (-1, 1)
    idx = torch.arange(N)
    bits = ((idx * 7 + idx // 5 + (idx % 11 == 0)) % 3 == 0)
    x1 = torch.where(bits, torch.tensor(float(hi)), torch.tensor(float(lo)))
    for p in (0.0, 1e-3, 0.1, 0.5, 0.9, 1.0):
        for shape in ((N,), (3, N // 3)):
            x = x1[: shape[0] * shape[1]].reshape(shape) if len(shape) == 2 else x1
            cfg = f"p={p},{alpha},long,shape={'x'.join(map(str, shape))}"
            v = lambda clause, d: res.viol(ch, cfg, clause, d)  # noqa: E731
            chan = make(ch, p, None)
            x0 = x.clone()
            try:
                with Seam(Quantile()) as pol:
                    y = chan(x)
            except Exception as e:  # noqa: BLE001
                v("raises", f"{type(e).__name__}: {str(e)[:160]}")
                continue
            n = x.numel()
            res.ev(n, nontrivial=n, transitions=1)
            if not torch.equal(x, x0):
                v("input-intact", "the long input was modified")
            if tuple(y.shape) != tuple(x.shape):
                v("support", f"output shape {tuple(y.shape)}")
                continue
            ers = -1.0
            changed = y != x
            elig = (x == hi) if ch == "z" else torch.ones_like(changed)
            if ch == "bec":
                ok = (~changed) | (y == ers)
            else:
                ok = (~changed) | (y == (lo + hi - x))
            if not bool(ok.all()):
                i = int((~ok).reshape(-1).nonzero()[0])
                v("support", f"symbol {i}: {float(x.reshape(-1)[i])} -> {float(y.reshape(-1)[i])}")
            if bool((changed & ~elig).any()):
                v("z-one-sided", f"{int((changed & ~elig).sum())} symbols equal to {lo} were changed")
            ne, nc = int(elig.sum()), int((changed & elig).sum())
            if ch == "bec" and alpha == "pm1":
                # an erased -1 stays -1: only +1 symbols show an erasure
                ne, nc = int((x == hi).sum()), int((changed & (x == hi)).sum())
            if p == 0.0 and nc:
                v("p0", f"p=0 but {nc} symbols changed")
            elif p == 1.0 and nc != ne:
                v("p1", f"p=1 but only {nc} of {ne} eligible symbols changed")
            elif 0 < p < 1 and pol.bypassed == 0 and pol.served < ne:
                # fewer draws than eligible symbols: some symbols share their randomness (fates coupled instead of independent)
                v("rate", f"{pol.served} draws for {ne} eligible symbols (requests: {pol.requests[:6]}{'...' if len(pol.requests) > 6 else ''})")
            elif 0 < p < 1 and pol.served >= n and abs(nc - p * ne) > 2 + 4e-3 * ne * (1 if ne < n else 0):
                # every symbol owns one of the n equally spaced draws; restricted to a subset (Z channel, bipolar erasure) the count is a sub-grid count
                v("rate", f"{nc} of {ne} eligible symbols changed, p*eligible = {p * ne:.1f} (draws are the {n}-point quantile grid)")
    # without the seam: every call consumes fresh randomness (two calls without reseeding give different patterns, also on a fresh object; the
    # same seed replays the pattern).  512 eligible symbols at p=0.5: two honest patterns coincide with probability 2^-512
    xs = torch.full((512,), float(hi))
    c1 = make(ch, 0.5, None)
    torch.manual_seed(99)
    y1, y2, y3 = c1(xs), c1(xs), make(ch, 0.5, None)(xs)
    torch.manual_seed(99)
    y4 = c1(xs)
    res.ev(3, nontrivial=3, transitions=4)
    if torch.equal(y1, y2) or torch.equal(y1, y3):
        res.viol(ch, f"p=0.5,{alpha},repeated calls", "private-draw", "two calls without reseeding produced the identical pattern on 512 symbols (same object: %s, fresh object: %s)" % (torch.equal(y1, y2), torch.equal(y1, y3)))
    if not torch.equal(y1, y4):
        res.viol(ch, f"p=0.5,{alpha},repeated calls", "private-draw", "the same seed does not replay the same pattern")
    res.sample({"channel": ch, "alphabet": alpha, "N": N})


# ----------------------------------------------------------------------------- spelling equivalence of the constructors behind this property
# (positional / keyword / mixed spellings of one legal call configure the same object; shared helper kmc/spelling.py)
_cases0, _execute0, _component0 = cases, execute, component_of


def cases(tier, seed):  # noqa: F811
    yield from _cases0(tier, seed)
    yield from _long_cases()
    yield f"{PID}|spelling", {"kind": "spelling", "tier": tier}


def execute(p, res):  # noqa: F811
    if p.get("kind") == "spelling":
        from kmc import spelling
        return spelling.run(PID, res)
    if p.get("long"):
        return long_case(p, res)
    return _execute0(p, res)


def component_of(p):  # noqa: F811
    return "spelling" if p.get("kind") == "spelling" else _component0(p)


# ----------------------------------------------------------------------------- life-cycle equivalence of the components behind this property
# (deep copy / pickle / state_dict / eval-train / cast round trip / no_grad ... leave the behaviour unchanged; shared helper kmc/lifecycle.py)
_cases1, _execute1, _component1 = cases, execute, component_of


def cases(tier, seed):  # noqa: F811
    yield from _cases1(tier, seed)
    yield f"{PID}|lifecycle", {"kind": "lifecycle", "tier": tier}


def execute(p, res):  # noqa: F811
    if p.get("kind") == "lifecycle":
        from kmc import lifecycle
        return lifecycle.run(PID, res)
    return _execute1(p, res)


def component_of(p):  # noqa: F811
    return "lifecycle" if p.get("kind") == "lifecycle" else _component1(p)
