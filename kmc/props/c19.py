"""C19 – channels and constraints are differentiable (autograd == finite differences under frozen noise); DeepJSCC shape contract (E1 + frozen E4)."""
import math
from itertools import product

PID = "C19"
ENGINE = "kmc-E1-space + kmc-E4-rngseam"
RULE = ("configuration lattice: analog stages {AWGN, Laplacian, phase noise, flat fading x3, nonlinear cubic x complex modes +- noise} x noise by power / SNR x "
        "{float64, complex128} x shapes {(2,6),(3,2,4)} and constraints {total, average, PAPR, per-antenna} x batch of 1 / 3, each on 5 deterministic inputs and "
        "3 scalar losses: autograd gradient vs central finite differences under a FROZEN noise realisation (RNG seam); DeepJSCC pipelines of every bundled "
        "architecture (reduced width) x 4 constraints x 4 channels: every encoder parameter gets a finite non-zero gradient; shape contract for image sizes "
        "{16,32,48,64} x batch {1,2,5}; a state is one (configuration, input, loss) gradient comparison / one forward pass; non-trivial = all")
ASSUME = ["the input space is continuous: exhaustive over the configuration lattice and a fixed finite input alphabet only",
          "finite-difference step 1e-3*scale, relative tolerance 2e-3 (the SNR path rounds the noise power through float32)",
          "latent shapes are those documented / produced by the published architectures at the pinned commit"]
HORIZON = {"quick": 400, "thorough": 2400}

STAGES = ["awgn", "laplacian", "phase", "fading-rayleigh", "fading-rician", "fading-lognormal", "nonlinear-direct", "nonlinear-cartesian", "nonlinear-polar", "nonlinear-noisy",
          "nonlinear-direct-compress", "nonlinear-cartesian-compress", "nonlinear-polar-compress", "nonlinear-polar-saturate",
          "fading-rayleigh-T5", "fading-rician-T100", "fading-lognormal-T100"]     # coherence time not dividing / exceeding the word length
CONSTRAINTS = ["total", "average", "papr-inside", "papr-outside", "papr-late", "per-antenna", "per-antenna-budget32", "per-antenna-budget64"]
ARCHS = ["bourtsoulatze", "tung-q", "tung-q2", "kurka", "noma", "wz-small", "wz", "wz-conditional"]


def bounds(tier):
    return {"stages": STAGES, "constraints": CONSTRAINTS, "architectures": ARCHS, "image_sizes": [16, 32, 48, 64], "batch_sizes": [1, 2, 5], "inputs_per_config": 5, "losses": 3}


def cases(tier, seed):
    for st in STAGES:
        for par in (("power", "snr") if not (st == "phase" or (st.startswith("nonlinear-") and st != "nonlinear-noisy")) else ("none",)):
            for cplx in (False, True):
                if not cplx and st.startswith(("nonlinear-cartesian", "nonlinear-polar")):
                    continue
                yield f"C19|grad|{st}|{par},{'complex128' if cplx else 'float64'}", {"kind": "grad-stage", "stage": st, "par": par, "cplx": cplx, "tier": tier}
    for c in CONSTRAINTS:
        for cplx in (False, True):
            yield f"C19|grad|{c}|{'complex128' if cplx else 'float64'}", {"kind": "grad-constraint", "con": c, "cplx": cplx, "tier": tier}
    for a in ARCHS:
        yield f"C19|shape|{a}", {"kind": "shape", "arch": a, "tier": tier}
    for a in ("bourtsoulatze", "tung-q", "tung-q2", "kurka"):
        yield f"C19|pipeline|{a}", {"kind": "pipeline", "arch": a, "tier": tier}
    yield "C19|pipeline|kurka-feedback-model", {"kind": "feedback-model", "tier": tier}
    for D_ in (2, 3):
        yield f"C19|pipeline|noma-model,D={D_}", {"kind": "noma-model", "D": D_, "tier": tier}
    yield "C19|filters-factor", {"kind": "factor", "tier": tier}


def component_of(p):
    return p.get("stage") or p.get("con") or p.get("arch") or "utils"


def execute(p, res):
    {"grad-stage": grad_stage, "grad-constraint": grad_constraint, "shape": shape_case, "pipeline": pipeline_case, "factor": factor_case, "feedback-model": feedback_model_case, "noma-model": noma_model_case}[p["kind"]](p, res)


# ----------------------------------------------------------------------------- gradient machinery
def inputs(shape, k, scale=1.0):
    """k-th deterministic input (Halton-like), away from 0"""
    import torch
    n = 1
    for s in shape:
        n *= s
    vals = []
    for i in range(n):
        h, f, j = 0.0, 0.5, i * 5 + k + 1
        while j:
            h += f * (j % 2)
            j //= 2
            f /= 2
        v = (0.35 + 1.3 * h) * (1 if (i + k) % 3 else -1)
        vals.append(v * scale)
    return torch.tensor(vals, dtype=torch.float64).reshape(shape)


def losses(y):
    import torch
    yr = torch.view_as_real(y).reshape(-1) if y.is_complex() else y.reshape(-1)
    i = torch.arange(yr.numel(), dtype=torch.float64)
    w = torch.cos(0.7 * i + 0.2)
    return [(yr * w).sum(), (yr ** 2).sum(), yr[0] + 0.5 * yr[-1]]


def compare(fn, parts, res, comp, cfg, hrel=1e-3):
    """fn(list of float64 leaf tensors) -> output tensor. compares autograd with central differences for 3 losses."""
    import torch
    leaves = [p.clone().requires_grad_(True) for p in parts]
    with torch.enable_grad():
        y = fn(leaves)
        if not y.requires_grad:
            res.viol(comp, cfg, "attached", "the stage's output does not depend on its input for autograd (detached)")
            return
        Ls = losses(y)
        grads = []
        for L in Ls:
            g = torch.autograd.grad(L, leaves, retain_graph=True, allow_unused=True)
            grads.append([gi if gi is not None else torch.zeros_like(l) for gi, l in zip(g, leaves)])
    scale = max(float(p.abs().max()) for p in parts)
    h = hrel * scale
    for li in range(3):
        for pi, pt in enumerate(parts):
            fd = torch.zeros_like(pt)
            flat = pt.reshape(-1)
            for e in range(flat.numel()):
                plus = [q.clone() for q in parts]
                minus = [q.clone() for q in parts]
                plus[pi].reshape(-1)[e] += h
                minus[pi].reshape(-1)[e] -= h
                with torch.no_grad():
                    lp = losses(fn(plus))[li]
                    lm = losses(fn(minus))[li]
                fd.reshape(-1)[e] = (lp - lm) / (2 * h)
            g = grads[li][pi]
            res.ev(1, nontrivial=1, transitions=2 * flat.numel() + 1)
            if not bool(torch.isfinite(g).all()):
                res.viol(comp, cfg, "finite", f"loss {li}: autograd gradient has non-finite entries")
                return
            err = float((g - fd).abs().max())
            ref = max(float(fd.abs().max()), float(g.abs().max()), 1e-12)
            if err > 2e-3 * ref + 1e-9:
                e = int((g - fd).abs().reshape(-1).argmax())
                res.viol(comp, cfg, "grad=fd", f"loss {li}, input part {pi}, element {e}: autograd {float(g.reshape(-1)[e]):.6g} vs finite difference {float(fd.reshape(-1)[e]):.6g} (max |grad| {ref:.4g})", {"loss": li})
                return


def make_stage(st, par, value):
    import kaira.channels as K
    kw = {"avg_noise_power": value} if par == "power" else {"snr_db": value} if par == "snr" else {}
    cubic = lambda t: t + 0.1 * t ** 3  # noqa: E731
    if st == "awgn":
        return K.AWGNChannel(**kw)
    if st == "laplacian":
        return K.LaplacianChannel(**kw)
    if st == "phase":
        return K.PhaseNoiseChannel(0.2)
    if st.startswith("fading"):
        ft = st.split("-")[1]
        extra = {"k_factor": 2.0} if ft == "rician" else {"shadow_sigma_db": 4.0} if ft == "lognormal" else {}
        T = int(st.split("-T")[1]) if "-T" in st else 2
        return K.FlatFadingChannel(ft, T, **extra, **kw)
    if st == "nonlinear-noisy":
        return K.NonlinearChannel(cubic, add_noise=True, complex_mode="direct", **kw)
    if st.endswith("-compress"):
        # gain compression t - t^3/2: the characteristic crosses zero at |t| = sqrt(2) and is negative beyond (the inputs reach |t| ~ 2.1), smooth everywhere
        comp = lambda t: t - 0.5 * t ** 3  # noqa: E731
        mode = st.split("-")[1]
        return K.NonlinearChannel((lambda t: t - 0.5 * t * t.abs() ** 2 if t.is_complex() else comp(t)) if mode == "direct" else comp, add_noise=False, complex_mode=mode)
    if st.endswith("-saturate"):
        return K.NonlinearChannel(lambda t: t / (1 + t ** 2) ** 0.5, add_noise=False, complex_mode=st.split("-")[1])
    return K.NonlinearChannel(lambda t: t + 0.1 * t * t.abs() ** 2 if t.is_complex() else cubic(t), add_noise=False, complex_mode=st.split("-")[1]) if st == "nonlinear-direct" else \
        K.NonlinearChannel(cubic, add_noise=False, complex_mode=st.split("-")[1])


def grad_stage(p, res):
    import torch
    from kmc.rngseam import Frozen, Seam
    st, par, cplx = p["stage"], p["par"], p["cplx"]
    values = {"power": [0.05, 2.0], "snr": [3.0, 25.0, 0.0], "none": [None]}[par]        # (0 dB: a legal value that is falsy in Python)
    for val in values:
        ch = make_stage(st, par, val)
        for shape in ((2, 6), (3, 2, 4), (2, 150)):
            for k in range(5 if p["tier"] == "thorough" else 3):
                if shape == (2, 150) and (k > 0 or val != values[0] or par == "snr"):
                    continue           # one input of 300 elements (a count that is neither small nor a multiple of 16) per stage, noise by power / none
                                       # (in SNR mode the library rounds the signal-dependent noise scale to float32: 2.3e-3 relative on 300 elements)
                cfg = f"{par}={val},{'complex128' if cplx else 'float64'},shape={'x'.join(map(str, shape))},input{k}"
                parts = [inputs(shape, k)] + ([inputs(shape, k + 7, 0.8)] if cplx else [])

                def fn(ps):
                    x = torch.complex(ps[0], ps[1]) if cplx else ps[0]
                    with Seam(Frozen(99)):
                        return ch(x)
                def fn_reseeded(ps):
                    # the fixed noise realisation obtained WITHOUT the seam (re-seeding torch's own generator before every evaluation): the seam answers
                    # torch.normal(mean, std) as mean + std * z, which would lend differentiability to a sampler that has none
                    x = torch.complex(ps[0], ps[1]) if cplx else ps[0]
                    torch.manual_seed(20261003)
                    return ch(x)
                try:
                    compare(fn, parts, res, st, cfg)
                    if k == 0:
                        compare(fn_reseeded, parts, res, st, cfg + ",reseeded")
                except Exception as e:  # noqa: BLE001
                    res.viol(st, cfg, "raises", f"{type(e).__name__}: {str(e)[:200]}")
                    break
    res.sample({"stage": st, "param": par, "complex": cplx})


def grad_constraint(p, res):
    import torch
    import kaira.constraints as KC
    con_name, cplx = p["con"], p["cplx"]
    mk = {"total": lambda: KC.TotalPowerConstraint(2.0), "average": lambda: KC.AveragePowerConstraint(0.5), "papr-inside": lambda: KC.PAPRConstraint(6.0),
          "papr-outside": lambda: KC.PAPRConstraint(1.3), "papr-late": lambda: KC.PAPRConstraint(3.0), "per-antenna": lambda: KC.PerAntennaPowerConstraint(uniform_power=1.5),
          "per-antenna-budget32": lambda: KC.PerAntennaPowerConstraint(power_budget=torch.tensor([1.0, 2.5])),                  # budget given in single precision
          "per-antenna-budget64": lambda: KC.PerAntennaPowerConstraint(power_budget=torch.tensor([1.0, 2.5], dtype=torch.float64))}[con_name]
    con = mk()
    shapes = [(1, 6), (3, 6)] if not con_name.startswith("per-antenna") else [(1, 2, 4), (3, 2, 4)]
    if con_name == "papr-late":
        # a sparse, peaky item (16 active samples of 256): the clipping loop does not converge early, so its late, more aggressive
        # iterations run; backward() must work and agree with finite differences on the active coordinates
        for Bn in (1, 2):
            for k in range(2):
                cfg = f"{'complex128' if cplx else 'float64'},shape={Bn}x256,input{k}"
                active = inputs((Bn, 16), k, 3.0)
                parts0 = [torch.full((Bn, 256), 1e-5, dtype=torch.float64)] + ([torch.full((Bn, 256), -1e-5, dtype=torch.float64)] if cplx else [])  # tiny background: >8 clipping passes are needed
                idx = torch.arange(16) * 16 + 3
                parts0[0][:, idx] = active
                if cplx:
                    parts0[1][:, idx] = inputs((Bn, 16), k + 5, 2.0)
                leaves = [q.clone().requires_grad_(True) for q in parts0]
                try:
                    with torch.enable_grad():
                        y = con(torch.complex(leaves[0], leaves[1]) if cplx else leaves[0])
                        L = losses(y)[1]
                        g = torch.autograd.grad(L, leaves, allow_unused=True)
                except Exception as e:  # noqa: BLE001
                    res.viol(con_name, cfg, "raises", f"backward through a clipping PAPR constraint: {type(e).__name__}: {str(e)[:200]}")
                    continue
                res.ev(1, nontrivial=1, transitions=2)
                if any(gi is None or not bool(torch.isfinite(gi).all()) for gi in g):
                    res.viol(con_name, cfg, "finite", "gradient missing or non-finite")
                    continue
                h = 1e-7 * 3.0
                for e_ in (3, 19, 35, 243):
                    plus = [q.clone() for q in parts0]
                    minus = [q.clone() for q in parts0]
                    plus[0][0, e_] += h
                    minus[0][0, e_] -= h
                    with torch.no_grad():
                        lp = losses(con(torch.complex(plus[0], plus[1]) if cplx else plus[0]))[1]
                        lm = losses(con(torch.complex(minus[0], minus[1]) if cplx else minus[0]))[1]
                    fd = float((lp - lm) / (2 * h))
                    ga = float(g[0][0, e_])
                    if abs(fd - ga) > 2e-3 * max(abs(fd), abs(ga), float(g[0].abs().max())) + 1e-9:
                        res.viol(con_name, cfg, "grad=fd", f"element {e_}: autograd {ga:.6g} vs finite difference {fd:.6g}")
                        break
        res.sample({"constraint": con_name, "complex": cplx})
        return
    for shape in shapes:
        for k in range(5 if p["tier"] == "thorough" else 3):
            cfg = f"{'complex128' if cplx else 'float64'},shape={'x'.join(map(str, shape))},input{k}"
            parts = [inputs(shape, k)] + ([inputs(shape, k + 7, 0.8)] if cplx else [])
            if con_name == "papr-inside":
                # nearly constant modulus: PAPR well below the limit (no clipping, >= 5 % margin)
                parts = [q.sign() * (1.0 + 0.05 * q.abs()) for q in parts]
            if con_name == "papr-outside":
                # one dominant sample per item: clipped with a wide margin
                for q in parts:
                    q.reshape(shape[0], -1)[:, 1] *= 6.0

            def fn(ps):
                x = torch.complex(ps[0], ps[1]) if cplx else ps[0]
                return con(x)
            try:
                compare(fn, parts, res, con_name, cfg, hrel=1e-7 if con_name.startswith("papr") else 1e-4)  # iterative clipping is only piecewise smooth: stay inside one piece
            except Exception as e:  # noqa: BLE001
                res.viol(con_name, cfg, "raises", f"{type(e).__name__}: {str(e)[:200]}")
                break
    # a batch with one SILENT item behind a shared, bias-free linear encoder: the loss is a smooth function of the shared weight (the silent item
    # stays silent under every perturbation of the weight), so autograd must give the finite-difference gradient of the weight - one silent
    # item must not poison the gradient that all items share
    if con_name in ("total", "average", "per-antenna"):
        shape = (3, 6) if not con_name.startswith("per-antenna") else (3, 2, 3)
        for silent in (0, 1, 2):
            cfg = f"{'complex128' if cplx else 'float64'},shape={'x'.join(map(str, shape))},silent-item={silent},shared-weight"
            inp = inputs((3, 6), 1)
            inp[silent] = 0.0
            inp_i = inputs((3, 6), 4, 0.7)
            inp_i[silent] = 0.0
            W = inputs((6, 6), 2, 0.6) + torch.eye(6, dtype=torch.float64)

            def fnw(ps):
                z = (torch.complex(inp, inp_i) @ torch.complex(ps[0], torch.zeros_like(ps[0]))) if cplx else inp @ ps[0]
                return con(z.reshape(shape))
            try:
                compare(fnw, [W], res, con_name, cfg, hrel=1e-5)
            except Exception as e:  # noqa: BLE001
                res.viol(con_name, cfg, "raises", f"{type(e).__name__}: {str(e)[:200]}")
                break
    res.sample({"constraint": con_name, "complex": cplx})


# ----------------------------------------------------------------------------- architectures
def arch(name, wide=False):
    """wide=True: widths at which no ReLU unit of the randomly initialised network is dead (needed for the gradient-reaches-every-parameter clause).
    -> (encode(x)->z, decode(z,x)->y, expected latent shape fn(B,H,W), expected output channels, sigmoid_range, encoder module, in_ch)"""
    import torch
    from kaira.models.image import bourtsoulatze2019_deepjscc as B
    from kaira.models.image import kurka2020_deepjscc_feedback as KU
    from kaira.models.image import tung2022_deepjscc_q as T
    from kaira.models.image import yilmaz2023_deepjscc_noma as N
    from kaira.models.image import yilmaz2024_deepjscc_wz as W
    csi = lambda x: torch.full((x.shape[0], 1), 0.7, dtype=x.dtype)  # noqa: E731
    if name == "bourtsoulatze":
        e, d = B.Bourtsoulatze2019DeepJSCCEncoder(8), B.Bourtsoulatze2019DeepJSCCDecoder(8)
        return (lambda x: e(x)), (lambda z, x: d(z)), (lambda b, h, w: (b, 8, h // 4, w // 4)), 3, True, e, 3
    Nw, Mw = (32, 16) if wide else (8, 4)
    if name == "tung-q":
        e, d = T.Tung2022DeepJSCCQEncoder(Nw, Mw), T.Tung2022DeepJSCCQDecoder(Nw, Mw)
        return (lambda x: e(x)), (lambda z, x: d(z)), (lambda b, h, w: (b, Mw, h // 16, w // 16)), 3, False, e, 3
    if name == "tung-q2":
        e, d = T.Tung2022DeepJSCCQ2Encoder(Nw, Mw), T.Tung2022DeepJSCCQ2Decoder(Nw, Mw)
        return (lambda x: e(x, csi(x))), (lambda z, x: d(z, csi(x))), (lambda b, h, w: (b, Mw, h // 4, w // 4)), 3, False, e, 3
    if name == "kurka":
        e, d = KU.DeepJSCCFeedbackEncoder(256), KU.DeepJSCCFeedbackDecoder(3)
        return (lambda x: e(x)), (lambda z, x: d(z)), (lambda b, h, w: (b, 256, h // 4, w // 4)), 3, True, e, 3
    if name == "noma":
        e, d = N.Yilmaz2023DeepJSCCNOMAEncoder(N=8, M=4), N.Yilmaz2023DeepJSCCNOMADecoder(N=8, M=4, num_devices=2)
        return (lambda x: e(x, csi(x))), (lambda z, x: d(z, csi(x))), (lambda b, h, w: (b, 4, h // 4, w // 4)), 6, False, e, 4
    if name == "wz-small":
        e = W.Yilmaz2024DeepJSCCWZSmallEncoder(8, 4)
        d = W.Yilmaz2024DeepJSCCWZSmallDecoder(8, 4, e)
        return (lambda x: e(x, csi(x))), (lambda z, x: d(z, x.flip(-1), csi(x))), (lambda b, h, w: (b, 4, h // 16, w // 16)), 3, False, e, 3
    if name == "wz":
        e, d = W.Yilmaz2024DeepJSCCWZEncoder(8, 4), W.Yilmaz2024DeepJSCCWZDecoder(8, 4)
        return (lambda x: e(x, csi(x))), (lambda z, x: d(z, x.flip(-1), csi(x))), (lambda b, h, w: (b, 4, h // 16, w // 16)), 3, False, e, 3
    if name == "wz-conditional":
        e, d = W.Yilmaz2024DeepJSCCWZConditionalEncoder(8, 4), W.Yilmaz2024DeepJSCCWZConditionalDecoder(8, 4)
        return (lambda x: e(x, x.flip(-1), csi(x))), (lambda z, x: d(z, x.flip(-1), csi(x))), (lambda b, h, w: (b, 4, h // 16, w // 16)), 3, False, e, 3
    raise KeyError(name)


def image(b, c, h, w):
    import torch
    i = torch.arange(b * c * h * w, dtype=torch.float32)
    return (0.5 + 0.5 * torch.sin(0.37 * i + 0.011 * i * i % 7)).reshape(b, c, h, w)


def shape_case(p, res):
    import torch
    a = p["arch"]
    torch.manual_seed(0)
    enc, dec, latent, out_ch, sig, emod, in_ch = arch(a)
    emod.eval()
    sizes = [16, 32, 48, 64]
    # square sizes of the property's list and the rectangular ones made of them (the contract is stated per dimension)
    hw = [(H, H) for H in sizes] + [(32, 48), (48, 32), (16, 64), (64, 32)]
    for H, Wd in hw:
        for Bn in ((1, 2, 5) if H == Wd else (1, 2)):
            if a == "kurka" and p["tier"] == "quick" and H == 64 and Bn == 5:
                continue
            cfg = f"H={H},B={Bn}" if H == Wd else f"H={H},W={Wd},B={Bn}"
            x = image(Bn, in_ch, H, Wd)
            try:
                with torch.no_grad():
                    z = enc(x)
                    y = dec(z, x[:, :3])
            except Exception as e:  # noqa: BLE001
                res.viol(a, cfg, "raises", f"{type(e).__name__}: {str(e)[:200]}")
                continue
            res.ev(1, nontrivial=1, transitions=2)
            if tuple(z.shape) != latent(Bn, H, Wd):
                res.viol(a, cfg, "latent-shape", f"latent shape {tuple(z.shape)}, documented {latent(Bn, H, Wd)}")
            if tuple(y.shape) != (Bn, out_ch, H, Wd):
                res.viol(a, cfg, "output-shape", f"decoder output shape {tuple(y.shape)}, expected {(Bn, out_ch, H, Wd)}")
            if not bool(torch.isfinite(y).all()) or (sig and (float(y.min()) < 0.0 or float(y.max()) > 1.0)):
                res.viol(a, cfg, "range", f"decoder output in [{float(y.min())}, {float(y.max())}]" + (" but the decoder ends in a sigmoid" if sig else ""))
            res.outcome((a, tuple(z.shape)[1:]))
    res.sample({"arch": a, "sizes": sizes})


def pipeline_case(p, res):
    import torch
    import kaira.channels as K
    import kaira.constraints as KC
    from kaira.models.base import BaseModel
    from kaira.models.deepjscc import DeepJSCCModel
    from kmc.rngseam import Frozen, Seam
    a = p["arch"]
    cons = {"total": lambda: KC.TotalPowerConstraint(1.0), "average": lambda: KC.AveragePowerConstraint(1.0), "papr": lambda: KC.PAPRConstraint(4.0), "per-antenna": lambda: KC.PerAntennaPowerConstraint(uniform_power=1.0)}
    chans = {"awgn": lambda: K.AWGNChannel(snr_db=10.0), "laplacian": lambda: K.LaplacianChannel(avg_noise_power=0.1), "nonlinear": lambda: K.NonlinearChannel(lambda t: t - 0.05 * t ** 3, add_noise=True, snr_db=15.0),
             "identity": lambda: K.PerfectChannel()}
    H = 32
    for cn, cmk in cons.items():
        for hn, hmk in chans.items():
            cfg = f"{cn},{hn}"
            torch.manual_seed(1)
            enc, dec, latent, out_ch, sig, emod, in_ch = arch(a, wide=True)

            class E(BaseModel):
                def __init__(self):
                    super().__init__()
                    self.m = emod

                def forward(self, x, *aa, **kk):
                    return enc(x)
            holder = {}

            class D(BaseModel):
                def forward(self, z, *aa, **kk):
                    return dec(z, holder["x"])
            model = DeepJSCCModel(E(), cmk(), hmk(), D())
            x = image(2, in_ch, H, H)
            holder["x"] = x[:, :3]
            try:
                for step in range(2):          # two training steps on the SAME pipeline instance (state kept between calls must not break autograd)
                    with torch.enable_grad(), Seam(Frozen(5 + step)):
                        y = model(x)
                        loss = ((y - x[:, :out_ch] if out_ch <= in_ch else y[:, :3] - x[:, :3]) ** 2).mean()
                        for prm_ in emod.parameters():
                            prm_.grad = None
                        loss.backward()
            except Exception as e:  # noqa: BLE001
                res.viol(a, cfg, "raises", f"training step {step}: {type(e).__name__}: {str(e)[:200]}")
                continue
            res.ev(1, nontrivial=1, transitions=2)
            bad = []
            for nm, prm_ in emod.named_parameters():
                g = prm_.grad
                if g is None or not bool(torch.isfinite(g).all()) or float(g.abs().sum()) == 0.0:
                    bad.append(nm)
            if bad:
                res.viol(a, cfg, "grad-reaches-encoder", f"{len(bad)} encoder parameters without a finite non-zero gradient, e.g. {bad[:3]}")
            if tuple(y.shape) != (2, out_ch, H, H):
                res.viol(a, cfg, "output-shape", f"pipeline output {tuple(y.shape)}")
    res.sample({"arch": a, "constraints": list(cons), "channels": list(chans)})


def feedback_model_case(p, res):
    """the bundled feedback architecture as a whole model: repeated forward/backward on one instance, gradients reach every encoder parameter"""
    import torch
    from kaira.models.image.kurka2020_deepjscc_feedback import DeepJSCCFeedbackModel
    from kmc.rngseam import Frozen, Seam
    for fb_snr in (None, 20.0):
        for Bn, H in ((2, 16), (1, 32)):
            cfg = f"feedback_snr={fb_snr},B={Bn},H={H}"
            torch.manual_seed(1)
            try:
                model = DeepJSCCFeedbackModel(channel_snr=10.0, conv_depth=16, channel_type="awgn", feedback_snr=fb_snr, refinement_layer=False, layer_id=0)
                x = image(Bn, 3, H, H)
                for step in range(3):
                    with torch.enable_grad(), Seam(Frozen(11 + step)):
                        out = model(x)
                        y = out["decoded_img"]
                        loss = ((y - x) ** 2).mean() + ((out["decoded_img_fb"] - x) ** 2).mean()
                        model.zero_grad(set_to_none=True)
                        loss.backward()
                    res.ev(1, nontrivial=1, transitions=2)
                    bad = [nm for nm, pr in model.encoder.named_parameters() if pr.grad is None or not bool(torch.isfinite(pr.grad).all()) or float(pr.grad.abs().sum()) == 0.0]
                    if bad:
                        res.viol("kurka-feedback-model", cfg, "grad-reaches-encoder", f"training step {step}: {len(bad)} encoder parameters without a finite non-zero gradient, e.g. {bad[:3]}")
                        break
                    if tuple(y.shape) != tuple(x.shape) or float(y.min()) < 0 or float(y.max()) > 1:
                        res.viol("kurka-feedback-model", cfg, "output-shape", f"decoded_img shape {tuple(y.shape)} range [{float(y.min())}, {float(y.max())}]")
                        break
            except Exception as e:  # noqa: BLE001
                res.viol("kurka-feedback-model", cfg, "raises", f"training step: {type(e).__name__}: {str(e)[:200]}")
    res.sample({"arch": "DeepJSCCFeedbackModel", "steps": 3})


def noma_model_case(p, res):
    """the bundled multi-device model as a whole: every combination of its option flags (shared / per-device encoders, device embedding on /
    off, perfect SIC on / off) x image size / batch: output [B, D, 3, H, W], and after backward() every parameter of every distinct encoder and
    decoder holds a finite gradient, each network as a whole a non-zero one"""
    import torch
    from kaira.channels import AWGNChannel
    from kaira.constraints import AveragePowerConstraint
    from kaira.models.image import yilmaz2023_deepjscc_noma as N
    from kmc.rngseam import Frozen, Seam
    D = p["D"]
    for shared, emb, sic in product([False, True], [False, True], [False, True]):
        for size, batch in ((16, 2), (32, 1)):
            cfg = f"D={D},shared_encoder={int(shared)},device_embedding={int(emb)},perfect_sic={int(sic)},size={size},batch={batch}"
            torch.manual_seed(1234)
            try:
                in_ch = 4 if emb else 3
                mkenc = lambda: N.Yilmaz2023DeepJSCCNOMAEncoder(N=16, M=8, in_ch=in_ch, csi_length=1)  # noqa: E731
                enc = mkenc() if shared else [mkenc() for _ in range(D)]
                dec = [N.Yilmaz2023DeepJSCCNOMADecoder(N=16, M=8, out_ch_per_device=3, csi_length=1) for _ in range(D)]
                model = N.Yilmaz2023DeepJSCCNOMAModel(channel=AWGNChannel(snr_db=10.0), power_constraint=AveragePowerConstraint(average_power=1.0), encoder=enc, decoder=dec,
                                                      num_devices=D, latent_dim=8, shared_encoder=shared, shared_decoder=False, use_perfect_sic=sic, use_device_embedding=emb,
                                                      image_shape=(size, size)).double()
                model.train()
                xs = [image(batch, 3, size, size).double() * (0.5 + 0.5 * d_) / D for d_ in range(D)]
                with torch.enable_grad():
                    with Seam(Frozen(7)):
                        out = model(torch.stack(xs, dim=1) if sic else xs, csi=torch.full((batch, 1), 10.0, dtype=torch.float64))      # documented input form per mode
                    res.ev(1, nontrivial=1, transitions=1)
                    if tuple(out.shape) != (batch, D, 3, size, size):
                        res.viol("noma-model", cfg, "shape", f"output shape {tuple(out.shape)}, expected {(batch, D, 3, size, size)}")
                        continue
                    ((out - torch.stack(xs, dim=1)) ** 2).mean().backward()
            except Exception as e:  # noqa: BLE001
                res.viol("noma-model", cfg, "raises", f"{type(e).__name__}: {str(e)[:200]}")
                continue
            seen = set()
            for kind_, nets in (("encoder", model.encoders), ("decoder", model.decoders)):
                for d_, net in enumerate(nets):
                    if id(net) in seen:
                        continue
                    seen.add(id(net))
                    none = [n_ for n_, q_ in net.named_parameters() if q_.grad is None]
                    bad = [n_ for n_, q_ in net.named_parameters() if q_.grad is not None and not bool(torch.isfinite(q_.grad).all())]
                    tot = sum(float(q_.grad.abs().sum()) for _, q_ in net.named_parameters() if q_.grad is not None)
                    res.ev(1, nontrivial=1, transitions=1)
                    if none or bad or not tot > 0:
                        res.viol("noma-model", cfg, "grad-reach", f"{kind_}[{d_}]: {len(none)} parameter tensors without gradient (e.g. {none[:2]}), {len(bad)} non-finite, total |grad| = {tot:.3g}", {"net": f"{kind_}{d_}"})
    res.sample({"devices": D, "flag_combinations": 8})


def factor_case(p, res):
    from kaira.utils import calculate_num_filters_factor_image as f
    from fractions import Fraction
    for layers in range(0, 5):
        for ch in (1, 3, 4):
            for den in (1, 2, 3, 4, 6, 8, 12, 16, 24, 48):
                for num in (1, 2, 3):
                    for cx in (False, True):
                        r = Fraction(num, den)
                        want = ch * 4 ** layers * r * (2 if cx else 1)
                        res.ev(1, nontrivial=1, transitions=1)
                        try:
                            got = f(layers, num / den, channels=ch, is_complex_transmission=cx)
                        except AssertionError:
                            if want.denominator == 1 and abs(float(want) - round(ch * 4 ** layers * (num / den) * (2 if cx else 1))) < 1e-9 and (ch * 4 ** layers * (num / den) * (2 if cx else 1)).is_integer():
                                res.viol("utils", f"layers={layers},ratio={num}/{den},ch={ch},complex={cx}", "latent-shape", "integer result rejected")
                            else:
                                res.rejected += 1
                            continue
                        if want.denominator == 1 and int(got) != int(want):
                            res.viol("utils", f"layers={layers},ratio={num}/{den},ch={ch},complex={cx}", "latent-shape", f"calculate_num_filters_factor_image = {got}, expected {want}")
    res.sample({"grid": "layers<=4 x ratios x channels x complex"})


# ----------------------------------------------------------------------------- life-cycle equivalence of the components behind this property
# (deep copy / pickle / state_dict / eval-train / cast round trip / no_grad ... leave the behaviour unchanged; shared helper kmc/lifecycle.py)
_cases1, _execute1, _component1 = cases, execute, component_of


def cases(tier, seed):  # noqa: F811
    yield from _cases1(tier, seed)
    yield f"{PID}|lifecycle", {"kind": "lifecycle", "tier": tier}


def execute(p, res):  # noqa: F811
    if p.get("kind") == "lifecycle":
        from kmc import lifecycle
        return lifecycle.run(PID, res)
    return _execute1(p, res)


def component_of(p):  # noqa: F811
    return "lifecycle" if p.get("kind") == "lifecycle" else _component1(p)
