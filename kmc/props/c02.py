"""C02 – hard-decision decoders correct <= t errors; complete decoders return a nearest codeword (E1)."""
from itertools import combinations

from kmc import catalogue as C
from kmc.props.c01 import construct
from kmc.props.c03 import advertised
from kmc.ref import gf2

PID = "C02"
ENGINE = "kmc-E1-space"
RULE = ("(code, decoder) pairs from the catalogue x codewords x every error pattern of weight <= t (all 2^k codewords when the product "
        "<= 2e5, else zero/basis/all-ones/alternating codewords x weight<=min(t,3) + bursts + first/last 64 patterns per weight) presented in "
        "4-row batches and (1/8 of them) alone as 1-D; complete decoders additionally on all 2^n received words (n<=12 quick / 15 thorough); "
        "a state is one (pair, received word) point; non-trivial = received word is not a codeword")
ASSUME = ["codebook for the nearest-codeword oracle is taken from the encoder itself (its agreement with G/H is C01)"]
HORIZON = {"quick": 300, "thorough": 3600}


def bounds(tier):
    q = tier == "quick"
    return {"syndrome_lookup": "n-k<=10, n<=15 (+Golay 23)" if q else "n-k<=11, n<=31", "brute_force_ml": "k<=8, n<=15" if q else "k<=10, n<=24",
            "berlekamp_massey_bch_mu": "2..4" if q else "2..6", "reed_muller_m": "<=4" if q else "<=5", "hamming_mu": "2..4" if q else "2..5",
            "all_received_words_n": 12 if q else 15, "exhaustive_product_limit": 20000 if q else 200000}


def _pairs(tier, seed):
    q = tier == "quick"
    for spec in C.catalogue(tier, seed):
        fam, cfg, prm = spec
        if fam in ("generic", "ldpc", "systematic"):
            # thin the huge generic families for decoder pairing: every 9th matrix (rotating with the seed) + all structured ones
            if fam == "generic" and not cfg.startswith("G=") :
                pass
            h = sum(map(ord, cfg))
            special = False
            if fam == "generic" and "G" in prm:
                # codes with unused (all-zero) or repeated coordinates have covering radius beyond n/2 and beyond t: never thinned
                rows_ = C._detensor(prm["G"])
                cols_ = [tuple(int(r_[j]) for r_ in rows_) for j in range(len(rows_[0]))]
                special = len(rows_) <= 2 and (any(not any(c_) for c_ in cols_) or len(set(cols_)) <= len(rows_))
            if ("/" not in cfg) and not special and (h + seed) % (9 if q else 3) != 0:
                continue
        if "dtype" in prm and fam in ("bch", "hamming", "golay") and q and prm["dtype"] not in ("int64", "float16"):
            continue  # the encoders' dtype option: two dtypes in the quick tier, all six in the thorough tier
        if fam == "cyclic" and "form" in prm and prm["form"] != "g" and (q or prm["n"] > 15):
            continue  # same code as form=g (constructor variants are C01/C03's business)
        if fam == "hamming" and q and not isinstance(prm["info"], str) and (sum(map(ord, cfg)) + seed) % 4 != 0:
            continue
        yield spec


def cases(tier, seed):
    q = tier == "quick"
    per = {"generic": 40, "systematic": 20, "ldpc": 40, "cyclic": 6, "hamming": 4, "bch": 1, "rm": 1, "golay": 1, "*": 4}
    cur_f, cur, idx = None, [], 0
    for spec in _pairs(tier, seed):
        lim = per.get(spec[0], per["*"])
        if spec[0] != cur_f or len(cur) >= lim:
            if cur:
                yield f"C02|{cur_f}|{idx:04d}|{cur[0][1]}..", {"specs": cur, "tier": tier}
                idx += 1
            if spec[0] != cur_f:
                idx = 0
            cur_f, cur = spec[0], []
        cur.append(spec)
    if cur:
        yield f"C02|{cur_f}|{idx:04d}|{cur[0][1]}..", {"specs": cur, "tier": tier}
    if q:
        # the larger fields GF(32), GF(64) in the quick tier as well: the first design distances of each (the word cap bounds the cost)
        extra = [s_ for s_ in C.bch("thorough", seed) if s_[2].get("mu") in (5, 6) and s_[2].get("delta") in (3, 5, 7, 11) and s_[2].get("info") == "left" and "dtype" not in s_[2]]
        for s_ in extra:
            yield f"C02|bch|large-field|{s_[1]}", {"specs": [s_], "tier": tier}
        # the low-dimensional ends of the two larger fields with the brute-force ML decoder only (Berlekamp-Massey at t = 7 / 15 is the thorough tier's)
        for s_ in [s_ for s_ in C.bch("thorough", seed) if (s_[2].get("mu"), s_[2].get("delta")) in ((5, 15), (6, 31), (6, 27)) and "dtype" not in s_[2]]:
            yield f"C02|bch|large-field,ml|{s_[1]}", {"specs": [(s_[0], s_[1] + ",ml-only", dict(s_[2], only="bruteforce"))], "tier": tier}
    for i, seq in enumerate(C.mixing_sequences()):
        if seq[0][0] == "bch":
            seq = seq[:3]          # Berlekamp-Massey costs ~2 ms per word: A, B, B' are enough to expose state shared between decoder instances
        yield f"C02|mixing|{i:02d}|{seq[0][0]}", {"specs": seq, "tier": tier}


def component_of(p):
    return p["specs"][0][0]


def cost(p):
    """scheduling hint only: Berlekamp-Massey on the long BCH codes dominates"""
    if "specs" not in p:
        return 0
    fam, cfg, prm = p["specs"][0]
    if fam == "bch":
        mu = 6 if ("mu=6" in cfg or "(63," in cfg) else 5 if ("mu=5" in cfg or "(31," in cfg) else int(prm.get("mu", 4))
        return 10 ** mu * len(p["specs"])
    if fam == "rm":
        return 10 ** 5 * (int(prm.get("m", 3)) - 2)
    if fam == "cyclic":
        return (3000 if "n=21" in cfg else 1000 if "n=15" in cfg else 10) * len(p["specs"])
    return len(p["specs"])


def execute(p, res):
    for spec in p["specs"]:
        check(spec, p["tier"], res)


# ----------------------------------------------------------------------------- helpers
def error_patterns(n, t, exhaustive):
    if exhaustive:
        return list(gf2.patterns_upto(n, t))
    pats = [0] + ([1 << i for i in range(n)] if t >= 1 else [])
    if t >= 2 and n * (n - 1) // 2 <= 2000:
        pats += [(1 << i) | (1 << j) for i in range(n) for j in range(i)]
    if t >= 3 and n <= 24:
        pats += [sum(1 << p for p in pos) for pos in combinations(range(n), 3)]
    for L in range(1, t + 1):       # bursts
        for s in range(0, n - L + 1):
            pats.append(((1 << L) - 1) << s)
    for w in range(1, t + 1):       # lexicographically first / last 64 of each weight
        first = [sum(1 << p for p in pos) for _, pos in zip(range(64), combinations(range(n), w))]
        last = [sum(1 << (n - 1 - p) for p in pos) for _, pos in zip(range(64), combinations(range(n), w))]
        pats += first + last
    return sorted(set(pats), key=lambda e: (gf2.weight(e), e))


def decode_words(call, words, n, k, res, one_d_every=8):
    """present words in 4-row batches (each word at one row position) and a 1/8 subset alone as 1-D.
    returns list of (word, decoded_message_int or None, presentation, exception or None)"""
    import torch
    out = []
    B = 4
    for off in range(0, len(words), B):
        ws = words[off:off + B]
        x = torch.tensor([gf2.bits(w, n) for w in ws], dtype=torch.float32)
        try:
            y = call(x)
            res.transitions += 1
            y = y[0] if isinstance(y, tuple) else y
            if tuple(y.shape) != (len(ws), k):
                out += [(w, None, f"row{i}/4", f"output shape {tuple(y.shape)} for input {tuple(x.shape)}") for i, w in enumerate(ws)]
                continue
            ints = C.tensor_to_ints(y)
            out += [(w, m, f"row{i}/4", None) for i, (w, m) in enumerate(zip(ws, ints))]
        except Exception as e:  # noqa: BLE001
            out += [(w, None, f"row{i}/4", f"{type(e).__name__}: {str(e)[:160]}") for i, w in enumerate(ws)]
    for w in words[::one_d_every] + words[-1:]:
        x = torch.tensor(gf2.bits(w, n), dtype=torch.float32)
        try:
            y = call(x)
            res.transitions += 1
            y = y[0] if isinstance(y, tuple) else y
            if tuple(y.shape) != (k,):
                out.append((w, None, "1d", f"output shape {tuple(y.shape)} for 1-D input"))
                continue
            out.append((w, C.tensor_to_ints(y.unsqueeze(0))[0], "1d", None))
        except Exception as e:  # noqa: BLE001
            out.append((w, None, "1d", f"{type(e).__name__}: {str(e)[:160]}"))
    # the same hard decisions presented in other dtypes (every 16th word, rotating through the dtypes): a decoder may decline a dtype, it may
    # not decode the word differently
    dts = ["uint8", "int64", "bool", "float64", "int32", "float16"]
    sub = words[::16]
    for j in range(0, len(sub), B):
        ws = sub[j:j + B]
        dt = dts[(j // B) % len(dts)]
        x = torch.tensor([gf2.bits(w, n) for w in ws], dtype=torch.float32).to(getattr(torch, dt))
        try:
            y = call(x)
            res.transitions += 1
            y = y[0] if isinstance(y, tuple) else y
            if tuple(y.shape) != (len(ws), k):
                out += [(w, None, f"{dt}", f"output shape {tuple(y.shape)} for input {tuple(x.shape)}") for w in ws]
                continue
            out += [(w, m, f"{dt}", None) for w, m in zip(ws, C.tensor_to_ints(y.to(torch.float32)))]
        except Exception:  # noqa: BLE001
            res.rejected += 1
    return out


def check(spec, tier, res):
    fam, cfg, prm = spec
    q = tier == "quick"
    enc = construct(spec, res)
    if enc is None:
        return
    from kaira.models.fec import decoders as D
    code = C.Code(enc)
    n, k = code.n, code.k
    if (k > 14 and fam != "bch") or n > 64:      # (BCH codes of any dimension: the Berlekamp-Massey decoder needs no codebook; structured messages above k = 12)
        return
    msgs = list(range(1 << k)) if k <= 12 else C.message_set(k)
    try:
        cws, _ = code.encode_ints(msgs)
    except Exception:  # noqa: BLE001  (C01's business)
        return
    if any(c is None for c in cws):
        return
    cb = dict(zip(msgs, cws))                      # message -> codeword as the encoder produces it
    adv = advertised(enc)
    t_adv = adv.get("t", (adv["d"] - 1) // 2 if "d" in adv else (adv["delta"] - 1) // 2 if "delta" in adv else None)
    res.outcome((fam, n, k, t_adv))

    decs = []
    if n - k <= (10 if q else 11) and (n <= 15 or (fam == "golay") or (not q and n <= 31)) and n - k >= 1:
        decs.append(("syndrome", lambda: D.SyndromeLookupDecoder(enc), True))
    if k <= (8 if q else 10) and (n <= (15 if q else 24) or fam == "bch"):       # (low-dimensional BCH codes of any length: 2^k codewords is what counts)
        decs.append(("bruteforce", lambda: D.BruteForceMLDecoder(enc), True))
        if n <= 7 and fam in ("hamming", "cyclic", "rm", "repetition", "spc"):
            decs.append(("bruteforce-lazy", lambda: D.BruteForceMLDecoder(enc, precompute_codebook=False), True))
    if fam == "bch" and prm.get("only") != "bruteforce":
        decs.append(("bm", lambda: D.BerlekampMasseyDecoder(enc), False))
    if fam == "rm" and prm["m"] <= (4 if q else 5):
        decs.append(("reed", lambda: D.ReedMullerDecoder(enc, input_type="hard"), False))
        if k <= 12:
            decs.append(("rm-inverse", lambda: (lambda x, **kw: enc.inverse_encode(x)), True))
    if fam == "hamming" and prm["mu"] <= (4 if q else 5):
        decs.append(("hamming-inverse", lambda: (lambda x, **kw: enc.inverse_encode(x)), False))

    for dname, mk, complete in decs:
        comp = f"{dname}x{fam}"
        try:
            dec = mk()
        except Exception as e:  # noqa: BLE001
            res.viol(comp, cfg, "raises", f"decoder constructor: {type(e).__name__}: {e}")
            continue
        # ---------- <= t clause
        if t_adv is not None and t_adv >= 0:
            n_pat = sum(1 for _ in gf2.patterns_upto(n, t_adv)) if n <= 31 and t_adv <= 3 else 10 ** 9
            lim = (20000 if q else 200000) if dname not in ("bm", "reed") else (5000 if q else 60000)      # BM / Reed loop in Python (2-10 ms per word)
            exhaustive = len(msgs) == (1 << k) and (1 << k) * n_pat <= lim
            if exhaustive:
                cw_sel = msgs
            else:
                cw_sel = sorted(({0, (1 << k) - 1, int("01" * k, 2) & ((1 << k) - 1)} | {1 << i for i in range(k)}) & set(msgs))
            pats = error_patterns(n, t_adv, exhaustive)
            if dname in ("bm", "reed") and not exhaustive:
                cap = 400 if q else 1500      # these decoders loop in Python (2-10 ms per word)
                if len(pats) > cap:
                    pats = pats[:cap // 2] + pats[-cap // 2:]
            if dname in ("bm", "reed") and not exhaustive:
                wcap = 1500 if q else 6000    # total words per (code, decoder)
                cw_sel = cw_sel[:max(3, wcap // max(1, len(pats)))]
            words, truth = [], {}
            if not exhaustive and t_adv >= 2:
                # spliced words: the transmitted codeword with its tail (head) replaced by the tail (head) of ANOTHER codeword, wherever that is within
                # t errors - a received word that agrees with a wrong codeword on a long stretch
                sp = 0
                pool_m = msgs if len(msgs) <= 256 else cw_sel
                for m in cw_sel[:6]:
                    for m2 in pool_m:
                        if m2 == m or sp >= 400:
                            continue
                        diff = cb[m] ^ cb[m2]
                        for cut in sorted({n // 3, n // 2, 2 * n // 3, 24, 25, 27, n - 5} & set(range(1, n))):
                            for e in (diff & ((1 << cut) - 1), diff & ~((1 << (n - cut)) - 1) & ((1 << n) - 1)):
                                if 0 < gf2.weight(e) <= t_adv and (cb[m] ^ e) not in truth:
                                    truth[cb[m] ^ e] = m
                                    words.append(cb[m] ^ e)
                                    sp += 1
                res.bump("spliced_words", sp)
            for m in cw_sel:
                for e in pats:
                    w = cb[m] ^ e
                    if w not in truth:
                        truth[w] = m
                        words.append(w)
            results = decode_words(dec, words, n, k, res)
            nbad = 0
            for w, got, pres, err in results:
                res.ev(1, nontrivial=1 if w != cb[truth[w]] else 0, transitions=0)
                if err is not None:
                    res.viol(comp, cfg, "raises", f"received {gf2.bits(w, n)} ({pres}): {err}", {"w": w, "pres": pres})
                elif got != truth[w]:
                    nbad += 1
                    if nbad == 1:
                        e = w ^ cb[truth[w]]
                        res.viol(comp, cfg, "<=t", f"t={t_adv}: message {gf2.bits(truth[w], k)} + error {gf2.bits(e, n)} (weight {gf2.weight(e)}), presented {pres}, decoded to {None if got is None else gf2.bits(got, k)}", {"w": w, "m": truth[w], "pres": pres})
            if nbad > 1:
                res.bump(f"{comp}:wrong_decodes", nbad)
            res.bump("exhaustive_pairs" if exhaustive else "structured_pairs")
        # ---------- nearest-codeword clause (complete decoders)
        if complete and len(msgs) == (1 << k):
            if n <= (12 if q else 15):
                words = list(range(1 << n))
            else:
                sel = sorted(({0, (1 << k) - 1} | {1 << i for i in range(k)}) & set(msgs))
                pats = error_patterns(n, min(n // 2, 4), False)
                words = sorted({cb[m] ^ e for m in sel for e in pats})
            allcw = list(cb.values())
            results = decode_words(dec, words, n, k, res)
            nbad = 0
            for w, got, pres, err in results:
                res.ev(1, nontrivial=1, transitions=0)
                if err is not None:
                    res.viol(comp, cfg, "raises", f"received {gf2.bits(w, n)} ({pres}): {err}", {"w": w, "pres": pres})
                    continue
                dmin = min(gf2.weight(w ^ c) for c in allcw)
                if got is None or got not in cb or gf2.weight(w ^ cb[got]) != dmin:
                    nbad += 1
                    if nbad == 1:
                        res.viol(comp, cfg, "nearest", f"received {gf2.bits(w, n)} ({pres}) decoded to {None if got is None else gf2.bits(got, k)} at distance {None if got is None or got not in cb else gf2.weight(w ^ cb[got])}, nearest codeword is at {dmin}", {"w": w, "pres": pres})
        # ---------- return_errors consistency
        if dname in ("syndrome", "bruteforce", "bruteforce-lazy", "bm", "reed"):
            import torch
            e1 = 1 if (complete or (t_adv or 0) >= 1) else 0   # stay inside a bounded-distance decoder's capability
            sel = [cb[msgs[-1]] ^ e1, cb[msgs[1 % len(msgs)]], cb[msgs[len(msgs) // 2]] ^ (e1 << (n - 1))]
            for w in sel:
                x = torch.tensor([gf2.bits(w, n)], dtype=torch.float32)
                try:
                    out = dec(x, return_errors=True)
                    res.ev(1, nontrivial=1, transitions=1)
                    if not isinstance(out, tuple) or len(out) != 2:
                        res.viol(comp, cfg, "errors-consistent", f"return_errors=True returned {type(out).__name__}")
                        continue
                    mi = C.tensor_to_ints(out[0].reshape(1, -1))[0]
                    ei = C.tensor_to_ints(out[1].reshape(1, -1))[0]
                    if mi is None or ei is None or (w ^ ei) != gf2.vec_mat(mi, code.G):
                        res.viol(comp, cfg, "errors-consistent", f"received {gf2.bits(w, n)}: message {out[0].tolist()} errors {out[1].tolist()} : received xor errors is not the codeword of the returned message", {"w": w})
                except Exception as e:  # noqa: BLE001
                    res.viol(comp, cfg, "raises", f"return_errors=True on {gf2.bits(w, n)}: {type(e).__name__}: {str(e)[:160]}", {"w": w})
    res.sample({"family": fam, "cfg": cfg, "n": n, "k": k, "t_advertised": t_adv, "decoders": [d[0] for d in decs]})


# ----------------------------------------------------------------------------- spelling equivalence of the constructors behind this property
# (positional / keyword / mixed spellings of one legal call configure the same object; shared helper kmc/spelling.py)
_cases0, _execute0, _component0 = cases, execute, component_of


def cases(tier, seed):  # noqa: F811
    yield from _cases0(tier, seed)
    yield f"{PID}|spelling", {"kind": "spelling", "tier": tier}


def execute(p, res):  # noqa: F811
    if p.get("kind") == "spelling":
        from kmc import spelling
        return spelling.run(PID, res)
    return _execute0(p, res)


def component_of(p):  # noqa: F811
    return "spelling" if p.get("kind") == "spelling" else _component0(p)


# ----------------------------------------------------------------------------- life-cycle equivalence of the components behind this property
# (deep copy / pickle / state_dict / eval-train / cast round trip / no_grad ... leave the behaviour unchanged; shared helper kmc/lifecycle.py)
_cases1, _execute1, _component1 = cases, execute, component_of


def cases(tier, seed):  # noqa: F811
    yield from _cases1(tier, seed)
    yield f"{PID}|lifecycle", {"kind": "lifecycle", "tier": tier}


def execute(p, res):  # noqa: F811
    if p.get("kind") == "lifecycle":
        from kmc import lifecycle
        return lifecycle.run(PID, res)
    return _execute1(p, res)


def component_of(p):  # noqa: F811
    return "lifecycle" if p.get("kind") == "lifecycle" else _component1(p)
