"""C09 – a coded, modulated link over an ideal or bounded-error channel returns the data (E1 with harness-placed faults)."""
import cmath
import math
from itertools import combinations, product

from kmc import modcat as MC

PID = "C09"
ENGINE = "kmc-E1-space"
RULE = ("ChannelCodeModel(encoder, IdentityConstraint, modulator, channel, demodulator, decoder) for every (code, decoder) pair x every memoryless "
        "(modulator, demodulator) pair whose bits/symbol divides the frame; hard decoders behind hard demodulation, soft decoders behind soft demodulation; "
        "all 2^k messages (k<=8), batches of all / 1 / 3; channels placed by the harness and enumerated: perfect; every symbol displaced by 0.49*dmin in 8 "
        "directions (all symbols, and one symbol at a time at every position); for hard decoders EVERY bit-flip pattern of weight <= t per block (n<=15), "
        "realised as the constellation point of the flipped label; a state is one (link, fault sequence) x all messages; non-trivial = a fault is present")
ASSUME = ["fault models are harness LambdaChannels built from the schemes' published tables", "differential / offset schemes are outside the pipeline model (no reference symbol stage)"]
HORIZON = {"quick": 400, "thorough": 3600}

PAIRS = ["hamming74+syndrome", "hamming74+bruteforce", "hamming-r+syndrome", "bch15_7+bm", "bch15_5+bm", "rm13+reed", "rep5+bruteforce", "cyclic7+syndrome",
         "tree+bp", "tree+minsum", "tree+minsumnorm", "tree+minsumoff", "spc4+wagner", "polar8_4+sc", "polar8_4+polarbp", "rm13+softrm", "polar16_8+sc",
         "polar8_4+polarbp1", "polar8_4+polarbp1ms", "polar16_8+polarbp2",
         "polar8_4i+sc", "polar16_8i+sc", "polar8_4o+sc",
         "hamming-l0246+syndrome", "bch15_7-odd+bm", "cyclic7-l6310+syndrome"]   # information sets that are neither contiguous nor ascending        # interleaved (polar_i=True) encoders and frozen ones with the SC decoder      # smallest iteration budgets (one sweep already converges on these links)


def bounds(tier):
    return {"pairs": PAIRS, "messages": "all 2^k", "flip_patterns": "all of weight <= t", "displacement": "0.49*dmin x 8 directions"}


N_OF = {"hamming74": 7, "hamming-r": 7, "bch15_7": 15, "bch15_5": 15, "rm13": 8, "rep5": 5, "cyclic7": 7, "tree": 6, "spc4": 5, "polar8_4": 8, "polar16_8": 16, "polar8_4i": 8, "polar16_8i": 16, "polar8_4o": 8, "hamming-l0246": 7, "bch15_7-odd": 15, "cyclic7-l6310": 7}


def cases(tier, seed):
    for pr in PAIRS:
        n = N_OF[pr.split("+")[0]]
        for spec in MC.schemes(tier, with_registry=False):
            scheme, cfgs, prm = spec
            if MC.KIND[scheme] != "memoryless" or scheme == "identity" or n % MC.bits_per_symbol(scheme, prm):
                continue
            if tier == "quick" and scheme in ("qam", "pam") and (prm.get("normalize") is False and prm.get("order", 0) > 16):
                continue
            yield f"C09|{pr}|{scheme},{cfgs}", {"pair": pr, "spec": spec, "tier": tier}
    # long BCH codes (n = 31 .. 255, one field size each) over a BPSK link with the Berlekamp-Massey decoder: structured messages, ideal channel and
    # flip patterns of weight <= t at structured positions
    for mu, delta in ((5, 3), (5, 7), (6, 3), (6, 5), (7, 3), (8, 3), (8, 5)):
        yield f"C09|long-bch|mu={mu},delta={delta}", {"longbch": (mu, delta), "tier": tier}
    # a code with 2^13 / 2^16 codewords under the exhaustive maximum-likelihood decoder (BCH(31,16), t=3, and its (28,13) shortening through a generic
    # generator matrix) over BPSK: structured and pseudo-random messages, ideal channel and <= t flips
    for nm in ("bch31_16", "short28_13"):
        yield f"C09|long-ml|{nm}", {"longml": nm, "tier": tier}
    # long low-order Reed-Muller codes (n = 64 .. 256, t up to 127) over a BPSK link with the majority-logic decoder: all messages, patterns of exactly
    # t flips (prefix, suffix, even positions, odd positions, strided, two halves)
    for r, m in ((0, 6), (1, 6), (0, 7), (1, 7), (0, 8), (1, 8)):
        yield f"C09|long-rm|r={r},m={m}", {"longrm": (r, m), "tier": tier}
    # pi/4-QPSK (alternating constellations, symbol-aligned: needs no reference symbol) in the pipeline: several transmissions through the SAME
    # modem objects, in eval and in the default training mode (where the rotation phase is carried from one call to the next), frames of an even
    # and of an odd number of symbols
    for pr in ("rm13+reed", "rm13+softrm", "tree+bp", "tree+minsum", "polar8_4+sc", "polar16_8+sc", "hamming74+bruteforce", "rep5+bruteforce"):
        yield f"C09|{pr}|pi4qpsk,alternating", {"alt": pr, "tier": tier}
    # links whose codes share class and (n, k) built one after the other in ONE process (decoder state shared between instances)
    bpsk = ("bpsk", "complex=1", {"complex_output": True})
    yield "C09|mixing|hamming-left-right", {"pairs": ["hamming74+syndrome", "hamming-r+syndrome", "hamming74+bruteforce", "hamming-r+syndrome", "hamming74+syndrome"], "spec": bpsk, "tier": tier}
    yield "C09|mixing|bch-15", {"pairs": ["bch15_7+bm", "bch15_5+bm", "bch15_7+bm"], "spec": bpsk, "tier": tier}


def component_of(p):
    return "long-bch" if "longbch" in p else "long-rm" if "longrm" in p else "long-ml" if "longml" in p else p.get("alt") or p.get("pair", "mixing")


def build_pair(pr):
    import torch
    from kaira.models.fec import decoders as D
    from kaira.models.fec import encoders as E
    code, dec = pr.split("+")
    enc = {"hamming74": lambda: E.HammingCodeEncoder(3), "hamming-r": lambda: E.HammingCodeEncoder(3, information_set="right"), "bch15_7": lambda: E.BCHCodeEncoder(4, 5),
           "bch15_5": lambda: E.BCHCodeEncoder(4, 7, information_set="right"), "rm13": lambda: E.ReedMullerCodeEncoder(1, 3), "rep5": lambda: E.RepetitionCodeEncoder(5),
           "cyclic7": lambda: E.CyclicCodeEncoder(7, generator_polynomial=0b1011),
           "tree": lambda: E.LDPCCodeEncoder(check_matrix=torch.tensor([[1.0, 1, 0, 1, 0, 0], [0, 1, 1, 0, 1, 0], [0, 0, 0, 1, 1, 1]])),
           "spc4": lambda: E.SingleParityCheckCodeEncoder(4), "polar8_4": lambda: E.PolarCodeEncoder(4, 8, frozen_zeros=True), "polar16_8": lambda: E.PolarCodeEncoder(8, 16),
           "polar8_4i": lambda: E.PolarCodeEncoder(4, 8, frozen_zeros=True, polar_i=True), "polar16_8i": lambda: E.PolarCodeEncoder(8, 16, polar_i=True),
           "polar8_4o": lambda: E.PolarCodeEncoder(4, 8, frozen_zeros=False),
           "hamming-l0246": lambda: E.HammingCodeEncoder(3, information_set=[0, 2, 4, 6]), "bch15_7-odd": lambda: E.BCHCodeEncoder(4, 5, information_set=[1, 3, 5, 7, 9, 11, 13]),
           "cyclic7-l6310": lambda: E.CyclicCodeEncoder(7, generator_polynomial=0b1011, information_set=[6, 3, 1, 0])}[code]()
    d = {"syndrome": lambda: D.SyndromeLookupDecoder(enc), "bruteforce": lambda: D.BruteForceMLDecoder(enc), "bm": lambda: D.BerlekampMasseyDecoder(enc), "reed": lambda: D.ReedMullerDecoder(enc),
         "bp": lambda: D.BeliefPropagationDecoder(enc, bp_iters=12), "minsum": lambda: D.MinSumLDPCDecoder(enc, bp_iters=12), "minsumnorm": lambda: D.MinSumLDPCDecoder(enc, bp_iters=12, normalized=True),
         "minsumoff": lambda: D.MinSumLDPCDecoder(enc, bp_iters=12, scaling_factor=0.9, offset=0.4), "wagner": lambda: D.WagnerSoftDecisionDecoder(enc),
         "sc": lambda: D.SuccessiveCancellationDecoder(enc), "polarbp": lambda: D.BeliefPropagationPolarDecoder(enc, bp_iters=10),
         "polarbp1": lambda: D.BeliefPropagationPolarDecoder(enc, bp_iters=1), "polarbp1ms": lambda: D.BeliefPropagationPolarDecoder(enc, bp_iters=1, regime="min_sum"),
         "polarbp2": lambda: D.BeliefPropagationPolarDecoder(enc, bp_iters=2), "softrm": lambda: D.ReedMullerDecoder(enc, input_type="soft")}[dec]()
    soft = dec in ("bp", "minsum", "minsumnorm", "minsumoff", "wagner", "sc", "polarbp", "polarbp1", "polarbp1ms", "polarbp2", "softrm")
    t = None
    if not soft:
        dmin = {"hamming74": 3, "hamming-r": 3, "bch15_7": 5, "bch15_5": 7, "rm13": 4, "rep5": 5, "cyclic7": 3, "hamming-l0246": 3, "bch15_7-odd": 5, "cyclic7-l6310": 3}[code]
        t = (dmin - 1) // 2
    return enc, d, soft, t


def execute(p, res):
    if "longbch" in p:
        return long_bch_case(p, res)
    if "alt" in p:
        return alternating_case(p, res)
    if "longrm" in p:
        return long_rm_case(p, res)
    if "longml" in p:
        return long_ml_case(p, res)
    if "pairs" in p:
        for pr in p["pairs"]:
            run_pair({"pair": pr, "spec": p["spec"], "tier": p["tier"]}, res)
    else:
        run_pair(p, res)



def alternating_case(p, res):
    import torch
    from kaira.channels import LambdaChannel, PerfectChannel
    from kaira.constraints import IdentityConstraint
    from kaira.models.channel_code import ChannelCodeModel
    pr = p["alt"]
    enc, dec, soft, t = build_pair(pr)
    n, k = int(enc.code_length), int(enc.code_dimension)
    blocks = 1 if n % 2 == 0 else 2                      # odd block lengths: two blocks per row (an odd number of symbols when n = 1, 3 mod 4)
    allm = [list(m) for m in product([0, 1], repeat=k)]
    if blocks == 2:
        allm = [a + b_ for a, b_ in zip(allm, allm[1:] + allm[:1])] + [a + a for a in allm[:4]]
    msgs = torch.tensor(allm, dtype=torch.float32)
    kw = {"noise_var": 0.5} if soft else {}
    for spec in [s_ for s_ in MC.schemes(p["tier"], with_registry=False) if s_[0] == "pi4qpsk"]:
        scheme, cfgs, prm = spec
        for mode in ("eval", "train"):
            mod, dem = MC.build(spec)
            if mode == "train":
                mod.train()
                dem.train()
            pts, _ = MC.table(mod)
            dmin = MC.dmin(pts)
            chans = [("perfect", PerfectChannel())] + [(f"displace-all,dir{di}", LambdaChannel(lambda s_, *a, dv=cmath.exp(1j * math.pi * di / 4) * 0.49 * dmin, **k2: s_ + dv)) for di in (0, 3, 5, 6)]
            model = ChannelCodeModel(enc, IdentityConstraint(), mod, PerfectChannel(), dem, dec)
            tx = 0
            for rep in range(3):
                for chname, channel in chans:
                    for x in (msgs, msgs[1:2], msgs[-3:]):
                        tx += 1
                        cfg = f"pi4qpsk,{cfgs},{mode},{chname}"
                        try:
                            m_ = ChannelCodeModel(enc, IdentityConstraint(), mod, channel, dem, dec) if (rep or chname != "perfect") else model
                            out = m_(x, **kw)
                        except Exception as e:  # noqa: BLE001
                            if blocks == 2:
                                res.rejected += 1          # a decoder may decline rows of several blocks
                                break
                            res.viol(pr, cfg, "raises", f"transmission {tx} through the same modem objects: {type(e).__name__}: {str(e)[:200]}")
                            break
                        res.ev(x.shape[0], nontrivial=x.shape[0], transitions=1)
                        if tuple(out.shape) != tuple(x.shape) or not torch.equal(out.to(torch.float32), x):
                            i = 0 if tuple(out.shape) != tuple(x.shape) else int((out.to(torch.float32) != x).any(dim=1).nonzero()[0])
                            res.viol(pr, cfg, "ideal" if chname == "perfect" else "<dmin/2", f"transmission {tx} through the same modem objects ({n * blocks // 2} symbols per row, no reset in between): message {x[i].tolist()} -> "
                                     f"{out[i].tolist() if out.dim() == 2 and i < out.shape[0] else tuple(out.shape)}", {"channel": chname, "tx": tx})
                            break
                    else:
                        continue
                    break
                else:
                    continue
                break
    res.outcome((pr, "pi4qpsk"))
    res.sample({"pair": pr, "n": n, "k": k, "blocks_per_row": blocks})


def long_ml_case(p, res):
    import torch
    from kaira.channels import LambdaChannel, PerfectChannel
    from kaira.constraints import IdentityConstraint
    from kaira.models.channel_code import ChannelCodeModel
    from kaira.models.fec import decoders as D
    from kaira.models.fec import encoders as E
    from kaira.modulations import BPSKDemodulator, BPSKModulator
    nm = p["longml"]
    base = E.BCHCodeEncoder(5, 7)
    if nm == "bch31_16":
        enc = base
    else:
        G = base.generator_matrix                       # systematic: shorten by dropping three message rows and their information columns
        info = [int(i) for i in base.information_set.tolist()] if hasattr(base, "information_set") else list(range(16))
        keep_rows = list(range(3, 16))
        drop_cols = {info[i] for i in range(3)}
        Gs = G[keep_rows][:, [c for c in range(31) if c not in drop_cols]]
        enc = E.LinearBlockCodeEncoder(generator_matrix=Gs.clone())
    n, k = int(enc.code_length), int(enc.code_dimension)
    dec = D.BruteForceMLDecoder(enc)
    t = 3
    rows = [[0] * k, [1] * k, [i % 2 for i in range(k)], [1] + [0] * (k - 1), [0] * (k - 1) + [1], [1, 1, 1] + [0] * (k - 3), [0] * (k - 3) + [1, 1, 1]]
    rows += torch.randint(0, 2, (9, k), generator=torch.Generator().manual_seed(31 + k)).tolist()
    msgs = torch.tensor(rows, dtype=torch.float32)
    mod, dem = BPSKModulator(), BPSKDemodulator()
    cfg = f"{nm},bpsk"
    pats = [()] + [(a,) for a in (0, n // 2, n - 1)] + [(0, n - 1), (1, n // 2), (0, 1, 2), (n - 3, n - 2, n - 1), (0, n // 2, n - 1), (2, 11, 23)]
    for pat in pats:
        def ch(s_, *a, pat=pat, **k2):
            s_ = s_.clone()
            for q_ in pat:
                s_[..., q_] = -s_[..., q_]
            return s_
        try:
            out = ChannelCodeModel(enc, IdentityConstraint(), mod, LambdaChannel(ch) if pat else PerfectChannel(), dem, dec)(msgs)
        except Exception as e:  # noqa: BLE001
            res.viol("long-ml", f"{cfg},flip{list(pat)}", "raises", f"{type(e).__name__}: {str(e)[:200]}")
            continue
        res.ev(msgs.shape[0], nontrivial=msgs.shape[0] if pat else 0, transitions=1)
        if tuple(out.shape) != tuple(msgs.shape) or not torch.equal(out.to(torch.float32), msgs):
            i = 0 if tuple(out.shape) != tuple(msgs.shape) else int((out.to(torch.float32) != msgs).any(dim=1).nonzero()[0])
            res.viol("long-ml", f"{cfg},flip{list(pat)}", "<=t-flips" if pat else "ideal", f"[{n},{k}] code with the exhaustive ML decoder: message {msgs[i].tolist()} with flips at {list(pat)} came back as {out[i].tolist() if out.dim() == 2 else tuple(out.shape)}", {"pattern": list(pat)})
    res.outcome(("long-ml", n, k))
    res.sample({"n": n, "k": k, "t": t, "patterns": len(pats)})


def long_rm_case(p, res):
    import torch
    from kaira.channels import LambdaChannel, PerfectChannel
    from kaira.constraints import IdentityConstraint
    from kaira.models.channel_code import ChannelCodeModel
    from kaira.models.fec import decoders as D
    from kaira.models.fec import encoders as E
    from kaira.modulations import BPSKDemodulator, BPSKModulator
    r, m = p["longrm"]
    cfg = f"r={r},m={m},bpsk"
    enc = E.ReedMullerCodeEncoder(r, m)
    dec = D.ReedMullerDecoder(enc, input_type="hard")
    n, k = int(enc.code_length), int(enc.code_dimension)
    t = (2 ** (m - r) - 1) // 2
    msgs = torch.tensor([list(mm) for mm in product([0, 1], repeat=k)], dtype=torch.float32)
    mod, dem = BPSKModulator(), BPSKDemodulator()
    pats = {"none": [], "prefix": list(range(t)), "suffix": list(range(n - t, n)), "even": list(range(0, n, 2))[:t], "odd": list(range(1, n, 2))[:t],
            "stride3": [(3 * i) % n for i in range(t)] if n % 3 else [(3 * i + i // (n // 3)) % n for i in range(t)], "two-halves": list(range(t // 2)) + list(range(n // 2, n // 2 + t - t // 2)),
            "quarters": [q_ * (n // 4) + i for q_ in range(4) for i in range(t // 4)], "t-1,prefix": list(range(max(t - 1, 0)))}
    for pname, pat in pats.items():
        assert len(set(pat)) == len(pat) <= t, pname

        def ch(s_, *a, pat=pat, **k2):
            s_ = s_.clone()
            for q_ in pat:
                s_[..., q_] = -s_[..., q_]
            return s_
        try:
            out = ChannelCodeModel(enc, IdentityConstraint(), mod, LambdaChannel(ch) if pat else PerfectChannel(), dem, dec)(msgs)
        except Exception as e:  # noqa: BLE001
            res.viol("long-rm", f"{cfg},{pname}", "raises", f"{type(e).__name__}: {str(e)[:200]}")
            continue
        res.ev(msgs.shape[0], nontrivial=msgs.shape[0] if pat else 0, transitions=1)
        if tuple(out.shape) != tuple(msgs.shape) or not torch.equal(out.to(torch.float32), msgs):
            i = 0 if tuple(out.shape) != tuple(msgs.shape) else int((out.to(torch.float32) != msgs).any(dim=1).nonzero()[0])
            res.viol("long-rm", f"{cfg},{pname}", "<=t-flips" if pat else "ideal", f"RM({r},{m}) [n={n}, k={k}, t={t}]: message {msgs[i].tolist()} with {len(pat)} flips ({pname}) came back as {out[i].tolist() if out.dim() == 2 else tuple(out.shape)}", {"pattern": pname})
    res.outcome(("long-rm", r, m))
    res.sample({"n": n, "k": k, "t": t, "patterns": len(pats)})


def long_bch_case(p, res):
    import torch
    from kaira.channels import LambdaChannel, PerfectChannel
    from kaira.constraints import IdentityConstraint
    from kaira.models.channel_code import ChannelCodeModel
    from kaira.models.fec import decoders as D
    from kaira.models.fec import encoders as E
    from kaira.modulations import BPSKDemodulator, BPSKModulator
    mu, delta = p["longbch"]
    cfg = f"mu={mu},delta={delta},bpsk"
    enc = E.BCHCodeEncoder(mu, delta)
    dec = D.BerlekampMasseyDecoder(enc)
    n, k = int(enc.code_length), int(enc.code_dimension)
    t = (delta - 1) // 2
    rows = [[0] * k, [1] * k, [i % 2 for i in range(k)], [1] + [0] * (k - 1), [0] * (k - 1) + [1], [1 if (i * i + i // 3) % 5 < 2 else 0 for i in range(k)]]
    msgs = torch.tensor(rows, dtype=torch.float32)
    mod, dem = BPSKModulator(), BPSKDemodulator()

    def run(chname, channel, clause):
        try:
            out = ChannelCodeModel(enc, IdentityConstraint(), mod, channel, dem, dec)(msgs)
        except Exception as e:  # noqa: BLE001
            res.viol("long-bch", f"{cfg},{chname}", "raises", f"{type(e).__name__}: {str(e)[:200]}")
            return
        res.ev(msgs.shape[0], nontrivial=msgs.shape[0] if chname != "perfect" else 0, transitions=1)
        if tuple(out.shape) != tuple(msgs.shape) or not torch.equal(out.to(torch.float32), msgs):
            i = 0 if tuple(out.shape) != tuple(msgs.shape) else int((out.to(torch.float32) != msgs).any(dim=1).nonzero()[0])
            nbad = int((out.to(torch.float32) != msgs).sum()) if tuple(out.shape) == tuple(msgs.shape) else -1
            res.viol("long-bch", f"{cfg},{chname}", clause, f"BCH({n},{k}) t={t}: structured message {i} came back with {nbad} wrong bits in total over {msgs.shape[0]} messages", {"channel": chname})
    run("perfect", PerfectChannel(), "ideal")
    pos = sorted({0, 1, n // 3, n // 2, n - 2, n - 1, 50 % n, 51 % n, 101 % n})
    pats = [(a,) for a in pos] + ([(a, b_) for a in pos[:5] for b_ in pos[4:] if a < b_] if t >= 2 else []) + ([(0, n // 2, n - 1), (1, 2, 3)] if t >= 3 else [])
    for pat in pats:
        def ch(s, *a, pat=pat, **k2):
            s = s.clone()
            for q_ in pat:
                s[..., q_] = -s[..., q_]
            return s
        run("flip" + str(list(pat)), LambdaChannel(ch), "<=t-flips")
    res.sample({"n": n, "k": k, "t": t, "patterns": len(pats)})


def run_pair(p, res):
    import torch
    from kaira.channels import LambdaChannel, PerfectChannel
    from kaira.constraints import IdentityConstraint
    from kaira.models.channel_code import ChannelCodeModel
    pr = p["pair"]
    q = p["tier"] == "quick"
    enc, dec, soft, t = build_pair(pr)
    n, k = int(enc.code_length), int(enc.code_dimension)
    msgs = torch.tensor([list(m) for m in product([0, 1], repeat=k)], dtype=torch.float32)
    assert n == N_OF[pr.split("+")[0]]
    fault_msgs = msgs
    if q and pr.endswith("+bm"):
        sel = sorted({0, msgs.shape[0] - 1, 1, 2, 4, 8, 16, 32, 64, 85, 42, 3, 5, 127 % msgs.shape[0]} & set(range(msgs.shape[0])))
        fault_msgs = msgs[sel]       # the Berlekamp-Massey decoder costs ~2 ms per word: structured messages for the fault clauses in the quick tier
    for spec in [p["spec"]]:
        scheme, cfgs, prm = spec
        b = MC.bits_per_symbol(scheme, prm)
        mod, dem = MC.build(spec)
        pts, lab = MC.table(mod)
        if lab is None:
            lab = [(0,), (1,)]
        dmin = MC.dmin(pts)
        nsym = n // b
        cfg = f"{scheme},{cfgs}"
        real_only = scheme in ("bpsk", "pam")

        def link(channel, x, **kw):
            model = ChannelCodeModel(enc, IdentityConstraint(), mod, channel, dem, dec)
            return model(x, **kw)
        kw = {"noise_var": 0.5} if soft else {}

        def check(chname, channel, clause, x=None, kw_=None):
            if x is None:
                x = msgs if clause == "ideal" else fault_msgs
            try:
                out = link(channel, x, **(kw if kw_ is None else kw_))
            except Exception as e:  # noqa: BLE001
                res.viol(pr, f"{cfg},{chname}", "raises", f"{type(e).__name__}: {str(e)[:200]}")
                return False
            res.ev(x.shape[0], nontrivial=x.shape[0] if chname != "perfect" else 0, transitions=1)
            if tuple(out.shape) != tuple(x.shape) or not torch.equal(out.to(torch.float32), x):
                i = 0 if tuple(out.shape) != tuple(x.shape) else int((out.to(torch.float32) != x).any(dim=1).nonzero()[0])
                res.viol(pr, f"{cfg},{chname}", clause, f"message {x[i].tolist()} -> {out[i].tolist() if out.dim() == 2 and i < out.shape[0] else tuple(out.shape)}", {"channel": chname})
                return False
            return True
        # ---- ideal channel: all messages at once, singly, batch of 3
        check("perfect", PerfectChannel(), "ideal")
        check("perfect,B=1", PerfectChannel(), "ideal", msgs[-1:])
        check("perfect,B=3", PerfectChannel(), "ideal", msgs[1:4] if msgs.shape[0] >= 4 else msgs[:3])
        check("lambda-identity", LambdaChannel(lambda s, *a, **k2: s), "ideal")
        if soft:
            # the same soft links at other noise variances: LLR magnitudes of the order 1e-2 (variance 50) and 1e3 (variance 1e-3) - the decision
            # of every soft decoder depends on the signs and the relative sizes only
            for nv in (50.0, 1e-3):
                check(f"perfect,noise_var={nv}", PerfectChannel(), "ideal", None, {"noise_var": nv})
                for di in (1, 4, 6):
                    dvv = complex(cmath.exp(1j * math.pi * di / 4)) * 0.45 * dmin
                    if real_only:
                        dvv = complex(0.45 * dmin * (1 if dvv.real >= 0 else -1), dvv.imag)
                    check(f"displace-all,dir{di},noise_var={nv}", LambdaChannel(lambda s, *a, dv=dvv, **k2: s + dv), "<dmin/2", None, {"noise_var": nv})
        # ---- bounded symbol displacement: < dmin/2 in 8 directions
        dirs = [cmath.exp(1j * math.pi * d / 4) for d in range(8)] if not real_only else [1, -1, 1j, -1j, cmath.exp(0.25j * math.pi), cmath.exp(0.75j * math.pi), cmath.exp(1.25j * math.pi), cmath.exp(1.75j * math.pi)]
        for di, dvec in enumerate(dirs):
            dv = complex(dvec) * 0.49 * dmin
            if real_only:
                dv = complex(dv.real * (0.49 * dmin / max(abs(dv.real), 1e-12)) if abs(dv.real) > 1e-9 else 0.0, dv.imag)   # the real part decides: keep |Re| = 0.49 dmin
            if not check(f"displace-all,dir{di}", LambdaChannel(lambda s, *a, dv=dv, **k2: s + dv), "<dmin/2"):
                break
        for pos in range(nsym):
            for di in (0, 3, 5):
                dv = complex(dirs[di]) * 0.49 * dmin
                if real_only:
                    dv = complex(0.49 * dmin * (1 if complex(dirs[di]).real >= 0 else -1), 0.0)

                def ch(s, *a, pos=pos, dv=dv, **k2):
                    s = s.clone().to(torch.complex64)
                    s[..., pos] = s[..., pos] + dv
                    return s
                if not check(f"displace-one,pos{pos},dir{di}", LambdaChannel(ch), "<dmin/2"):
                    break
        # ---- bit flips of weight <= t per block (hard decoders): the symbol becomes the point labelled with the flipped bits
        if t:
            P = torch.tensor(pts, dtype=torch.complex64)
            label_index = {l: i for i, l in enumerate(lab)}
            flipmaps = {}
            for flipmask in range(1, 1 << b):
                flipmaps[flipmask] = torch.tensor([label_index[tuple(bit ^ ((flipmask >> (b - 1 - j)) & 1) for j, bit in enumerate(l))] for l in lab])
            weights = range(1, t + 1)
            for w in weights:
                pats = list(combinations(range(n), w))
                if q and len(pats) > 120:
                    pats = pats[:60] + pats[-60:]
                ok = True
                for pat in pats:
                    per_sym = {}
                    for bitpos in pat:
                        per_sym[bitpos // b] = per_sym.get(bitpos // b, 0) | (1 << (b - 1 - bitpos % b))

                    def ch(s, *a, per_sym=per_sym, **k2):
                        s = s.clone().to(torch.complex64)
                        for sym, fm in per_sym.items():
                            idx = (s[..., sym].unsqueeze(-1) - P).abs().argmin(dim=-1)
                            s[..., sym] = P[flipmaps[fm][idx]]
                        return s
                    if not check(f"flip{list(pat)}", LambdaChannel(ch), "<=t-flips"):
                        ok = False
                        break
                if not ok:
                    break
        res.outcome((pr, scheme, b))
    res.sample({"pair": pr, "n": n, "k": k, "soft": soft, "t": t})


# ----------------------------------------------------------------------------- life-cycle equivalence of the components behind this property
# (deep copy / pickle / state_dict / eval-train / cast round trip / no_grad ... leave the behaviour unchanged; shared helper kmc/lifecycle.py)
_cases1, _execute1, _component1 = cases, execute, component_of


def cases(tier, seed):  # noqa: F811
    yield from _cases1(tier, seed)
    yield f"{PID}|lifecycle", {"kind": "lifecycle", "tier": tier}


def execute(p, res):  # noqa: F811
    if p.get("kind") == "lifecycle":
        from kmc import lifecycle
        return lifecycle.run(PID, res)
    return _execute1(p, res)


def component_of(p):  # noqa: F811
    return "lifecycle" if p.get("kind") == "lifecycle" else _component1(p)
