"""C14 – constellations: bijective labels, unit energy, Gray neighbours; Gray utilities (E1, fully exhaustive)."""
from kmc import modcat as MC

PID = "C14"
ENGINE = "kmc-E1-space"
RULE = ("every scheme/order/option that publishes a constellation: all points, all point pairs, all labels through the mapper; Gray "
        "utilities on every integer below 2^16 (quick) / 2^20 (thorough) + structured integers up to 2^60; non-trivial = label != 0 / n > 1")
ASSUME = ["distances compared in float64 with 1e-4 relative slack for 'nearest neighbour'"]
HORIZON = {"quick": 120, "thorough": 1200}
GRAY_OPT = {"psk": "gray_coding", "qam": "gray_coding", "pam": "gray_coding", "dpsk": "gray_coding", "pi4qpsk": "gray_coded"}
UNIT_ALWAYS = {"bpsk", "psk", "dpsk", "dbpsk", "dqpsk", "pi4qpsk"}


def bounds(tier):
    return {"gray_utils_exhaustive_below": 2 ** 16 if tier == "quick" else 2 ** 20, "gray_utils_structured_up_to": 2 ** 60,
            "schemes": len(MC.schemes(tier))}


def cases(tier, seed):
    # one case per (scheme, order): all option combinations in ONE process, catalogue order then reverse order (fresh instances)
    groups = {}
    for spec in MC.schemes(tier):
        if spec[0] == "identity":
            continue
        groups.setdefault((spec[0], spec[2].get("order", spec[2].get("bits_per_symbol"))), []).append(spec)
    # the largest orders the classes accept without the Gray utilities' open finding at 1023: PAM 128 / 256 / 512, PSK 128 / 256
    for scheme, order, opts in (("pam", 128, [{"gray_coding": g, "normalize": nz} for g in (True, False) for nz in (True, False)]), ("pam", 256, [{"gray_coding": g, "normalize": True} for g in (True, False)]),
                                ("pam", 512, [{"gray_coding": g, "normalize": nz} for g in (True, False) for nz in (True, False)]),
                                ("psk", 128, [{"gray_coding": g} for g in (True, False)]), ("psk", 256, [{"gray_coding": g} for g in (True, False)])):
        groups[(scheme, order)] = [(scheme, f"M={order},gray={int(o['gray_coding'])}" + (f",norm={int(o['normalize'])}" if "normalize" in o else ""), dict(o, order=order)) for o in opts]
    for (scheme, order), specs in groups.items():
        yield f"C14|{scheme}|order={order}", {"kind": "schemes", "specs": specs}
    top = 16 if tier == "quick" else 20
    nb = 8 if tier == "quick" else 32
    for blk in range(nb):
        yield f"C14|gray-utils|block{blk:02d}", {"kind": "gray", "lo": (1 << top) * blk // nb, "hi": (1 << top) * (blk + 1) // nb, "top": top}
    yield "C14|gray-utils|structured", {"kind": "gray-structured"}


def component_of(p):
    return p["specs"][0][0] if p["kind"] == "schemes" else "gray-utils"


def execute(p, res):
    if p["kind"] == "schemes":
        from kmc.engine import fresh_kaira
        for spec in p["specs"]:
            scheme_case(spec, res)
        if len(p["specs"]) > 1:
            fresh_kaira()          # the reverse order starts from pristine module state as well
            for spec in reversed(p["specs"]):
                scheme_case(spec, res)
    elif p["kind"] == "gray":
        gray_range(p, res)
    else:
        gray_structured(res)


def scheme_case(spec, res):
    import torch
    scheme, cfg, prm = spec
    mod, dem = MC.build(spec)
    pts, lab = MC.table(mod)
    v = lambda clause, detail, focus=None: res.viol(scheme, cfg, clause, detail, focus)  # noqa: E731
    b = MC.bits_per_symbol(scheme, prm)
    if int(mod.bits_per_symbol) != b:
        v("labels-bijective", f"bits_per_symbol={mod.bits_per_symbol}, expected {b}")
    if pts is None:
        v("distinct", "no constellation published")
        return
    M = len(pts)
    if lab is None and scheme == "bpsk":
        lab = [(0,), (1,)]
    res.ev(M, nontrivial=M - 1, transitions=1)
    res.outcome((scheme, M))
    if M != 2 ** b:
        v("distinct", f"{M} points for {b} bits per symbol")
    scale = max(abs(c) for c in pts) or 1.0
    close = [(i, j) for i in range(M) for j in range(i) if abs(pts[i] - pts[j]) <= 1e-6 * scale]
    if close:
        v("distinct", f"points {close[0]} coincide: {pts[close[0][0]]}")
    if lab is not None:
        want = {tuple(MC.sym_bits(x, b)) for x in range(2 ** b)}
        if len(lab) != M or set(lab) != want:
            v("labels-bijective", f"labels are not all {b}-bit patterns exactly once: {lab[:8]}...")
    energy = sum(abs(c) ** 2 for c in pts) / M
    if (prm.get("normalize") or scheme in UNIT_ALWAYS) and abs(energy - 1) > 1e-5:
        v("unit-energy", f"mean |c|^2 = {energy}")
    # mapper == table
    if lab is not None and len(lab) == M:
        for i, l in enumerate(lab):
            bits = list(l)
            try:
                if hasattr(mod, "reset_state"):
                    mod.reset_state()
                if MC.KIND[scheme] == "offset":
                    out = mod(torch.tensor([bits + bits], dtype=torch.float32))
                    got = complex(out.reshape(-1)[1])
                else:
                    out = mod(torch.tensor([bits], dtype=torch.float32))
                    got = complex(out.reshape(-1)[0])
            except Exception as e:  # noqa: BLE001
                v("raises", f"modulator(label bits {bits}): {type(e).__name__}: {e}")
                break
            res.ev(1, nontrivial=1 if any(bits) else 0, transitions=1)
            if abs(got - pts[i]) > 1e-5 * scale:
                v("mapper=table", f"modulator({bits}) = {got:.4f} but the point labelled {bits} in the published table is {pts[i]:.4f}", {"bits": bits})
                break
    # alternating schemes send every second symbol from a rotated copy of the constellation: observe that second table through the modulator
    # (symbol position 1 after a reset) - it must be a rotation of the published one with the same labelling properties
    tables2 = None
    if MC.KIND[scheme] == "alternating" and lab is not None and len(lab) == M:
        try:
            pts2 = []
            for l in lab:
                mod.reset_state()
                out = mod(torch.tensor([list(lab[0]) + list(l)], dtype=torch.float32))
                pts2.append(complex(out.reshape(-1)[1]))
            res.ev(M, nontrivial=M - 1, transitions=M)
            close2 = [(i, j) for i in range(M) for j in range(i) if abs(pts2[i] - pts2[j]) <= 1e-6 * scale]
            if close2:
                v("distinct", f"odd symbol positions: labels {lab[close2[0][0]]} and {lab[close2[0][1]]} are sent as the same point {pts2[close2[0][0]]:.4f}")
            e2 = sum(abs(c) ** 2 for c in pts2) / M
            if (prm.get("normalize") or scheme in UNIT_ALWAYS) and abs(e2 - 1) > 1e-5:
                v("unit-energy", f"odd symbol positions: mean |c|^2 = {e2}")
            tables2 = pts2
        except Exception as e:  # noqa: BLE001
            v("raises", f"observing the alternating constellation: {type(e).__name__}: {str(e)[:160]}")
    # Gray neighbours
    gopt = GRAY_OPT.get(scheme)
    gray = (prm.get(gopt) if gopt in prm else prm.get("gray_coded", True if scheme == "dpsk" else None)) if gopt else (scheme == "dqpsk")
    if gray and lab is not None and len(lab) == M and M > 2 and not close:
        for which, tp in (("", pts), ("odd symbol positions: ", tables2)):
            if tp is None or len({round(c.real, 6) + 1j * round(c.imag, 6) for c in tp}) != M:
                continue
            dm = MC.dmin(tp)
            npairs = 0
            for i in range(M):
                for j in range(i):
                    if abs(tp[i] - tp[j]) <= (1 + 1e-4) * dm:
                        npairs += 1
                        hd = sum(x != y for x, y in zip(lab[i], lab[j]))
                        if hd != 1:
                            v("gray-neighbours", f"{which}nearest neighbours {tp[i]:.3f} {lab[i]} and {tp[j]:.3f} {lab[j]} differ in {hd} bits", {"i": i, "j": j})
                            break
                else:
                    continue
                break
        res.ev(npairs, nontrivial=npairs, transitions=0)
    # the published table is a property of the configured scheme, not of what has been sent: a FRESH modulator (never reset) carries data -
    # every label in one call, then label by label, no reset in between - and the table is read again after every call
    if lab is not None and len(lab) == M:
        try:
            mod2, dem2 = MC.build(spec)
            dpts0 = MC.table(dem2)[0] if dem2 is not None and hasattr(dem2, "constellation") else None
            seq = [list(l) for l in lab]
            calls = [[x for l in seq for x in l]] + [(l + l if MC.KIND[scheme] == "offset" else l) for l in (seq if M <= 64 else seq[:8] + seq[-8:])]
            # inputs as symbol indices where the modulator takes them (0-d and one-element), besides bit rows; what a call returns is the caller's:
            # it is scaled and shifted in place before the table is read again
            calls = [torch.tensor([c_], dtype=torch.float32) for c_ in calls]
            for i_ in (0, 1, M - 1):
                calls += [torch.tensor(i_), torch.tensor([i_])]
            for ci, inp in enumerate(calls):
                try:
                    y2 = mod2(inp)
                except Exception:  # noqa: BLE001
                    if inp.dtype == torch.float32:
                        raise
                    continue           # index inputs are optional
                try:
                    y2.mul_(1.5).add_(0.25)
                    y2.mul_(1 / 1.5).sub_(0.25 / 1.5)
                    if inp.dtype != torch.float32:
                        y2.mul_(0.5)
                except Exception:  # noqa: BLE001
                    pass
                bits_ = inp.reshape(-1).tolist() if inp.dtype == torch.float32 else [0] * b
                pts_after, lab_after = MC.table(mod2)
                if dpts0 is not None:
                    try:
                        dem2(y2)
                        dem2(y2, 0.5)
                    except Exception:  # noqa: BLE001   (what the demodulator accepts is C05 / C06's business)
                        pass
                    dnow = MC.table(dem2)[0]
                    if len(dnow) != len(dpts0) or any(abs(a - c) > 1e-6 * scale for a, c in zip(dnow, dpts0)):
                        v("table-stable", f"after demodulating data ({ci + 1} calls on a fresh demodulator) its published constellation differs from the one published at construction")
                        break
                res.ev(len(bits_) // b, nontrivial=1, transitions=1)
                if pts_after is None or len(pts_after) != M or any(abs(a - c) > 1e-6 * scale for a, c in zip(pts_after, pts)) or (lab_after is not None and list(lab_after) != list(lab)):
                    i = next((i for i in range(min(M, len(pts_after or []))) if abs(pts_after[i] - pts[i]) > 1e-6 * scale), None)
                    v("table-stable", f"after modulating data ({ci + 1} calls on a fresh modulator) the published constellation differs from the one published at construction"
                      + (f": point {i} was {pts[i]:.4f}, now {pts_after[i]:.4f}" if i is not None else ""))
                    break
        except Exception as e:  # noqa: BLE001
            v("raises", f"modulating all labels in sequence: {type(e).__name__}: {str(e)[:160]}")
    res.sample({"scheme": scheme, "cfg": cfg, "points": M, "energy": round(energy, 6), "gray_requested": bool(gray)})


def _g(n):
    return n ^ (n >> 1)


def gray_range(p, res):
    import torch
    from kaira.modulations.utils import binary_array_to_gray, binary_to_gray, gray_array_to_binary, gray_to_binary
    lo, hi = p["lo"], p["hi"]
    counts = {}

    def v(n, clause, detail):
        counts[clause] = counts.get(clause, 0) + 1
        if counts[clause] <= 8:
            res.viol("gray-utils", f"n={n}", clause, detail, {"n": n})
    gs = []
    for n in range(lo, hi):
        g = binary_to_gray(n)
        gs.append(g)
        b = gray_to_binary(n)
        res.ev(1, nontrivial=1 if n > 1 else 0, transitions=4)
        if gray_to_binary(g) != n:
            v(n, "inverse", f"gray_to_binary(binary_to_gray({n})) = {gray_to_binary(g)}")
        if binary_to_gray(b) != n:
            v(n, "inverse", f"binary_to_gray(gray_to_binary({n})) = {binary_to_gray(b)}")
        if g != _g(n) or (n and (g.bit_length() != n.bit_length() or b.bit_length() != n.bit_length())):
            v(n, "bijection", f"binary_to_gray({n}) = {g} / gray_to_binary({n}) = {b}: not the bijection of [2^(j-1), 2^j) onto itself (reflected code gives {_g(n)})")
        g1 = binary_to_gray(n + 1)
        if bin(g ^ g1).count("1") != 1:
            v(n, "distance-one", f"binary_to_gray({n}) = {g} and binary_to_gray({n + 1}) = {g1} differ in {bin(g ^ g1).count('1')} bits")
    # array forms equal scalar forms (chunks)
    idx = list(range(lo, hi, 1))[:4096]
    for form, conv in (("list", lambda x: x), ("int64", lambda x: torch.tensor(x, dtype=torch.int64)), ("float32", lambda x: torch.tensor(x, dtype=torch.float32))):
        a = binary_array_to_gray(conv(idx)).tolist()
        bb = gray_array_to_binary(conv(idx)).tolist()
        res.ev(2, nontrivial=2, transitions=2)
        exp_a = [binary_to_gray(i) for i in idx]
        exp_b = [gray_to_binary(i) for i in idx]
        if [int(x) for x in a] != exp_a:
            k = next(i for i in range(len(idx)) if int(a[i]) != exp_a[i])
            v(idx[k], "array=scalar", f"binary_array_to_gray({form})[{idx[k]}] = {a[k]} but scalar gives {exp_a[k]}")
        if [int(x) for x in bb] != exp_b:
            k = next(i for i in range(len(idx)) if int(bb[i]) != exp_b[i])
            v(idx[k], "array=scalar", f"gray_array_to_binary({form})[{idx[k]}] = {bb[k]} but scalar gives {exp_b[k]}")
    res.sample({"range": [lo, hi], "checked": "g2b(b2g(n)) == n == b2g(g2b(n)); block preservation; popcount(g(n)^g(n+1)) == 1; array forms"})


def gray_structured(res):
    from kaira.modulations.utils import binary_to_gray, gray_to_binary
    fam = set()
    for j in range(0, 61):
        fam |= {1 << j, (1 << j) - 1, (1 << j) + 1, int("10" * 30, 2) >> (60 - j) if j else 0, int("01" * 30, 2) >> (60 - j) if j else 0}
    for n in sorted(x for x in fam if x >= 0):
        g = binary_to_gray(n)
        res.ev(1, nontrivial=1, transitions=3)
        if gray_to_binary(g) != n or binary_to_gray(gray_to_binary(n)) != n:
            res.viol("gray-utils", f"n={n}", "inverse", f"round trip fails at {n}")
        if g != _g(n):
            res.viol("gray-utils", f"n={n}", "bijection", f"binary_to_gray({n}) = {g}")
        if bin(g ^ binary_to_gray(n + 1)).count("1") != 1:
            res.viol("gray-utils", f"n={n}", "distance-one", f"g({n}) vs g({n + 1})")
    # the array forms on the same structured values (list and int64 tensor; all of them in one call, and one element at a time for the largest)
    import torch
    from kaira.modulations.utils import binary_array_to_gray, gray_array_to_binary
    vals = sorted(x for x in fam if x >= 0 and x not in (1022, 1023, 1024, 1365))      # (the open finding on 1023 / 1365 is reported by the scalar clauses)
    for form, conv in (("list", lambda x: x), ("int64", lambda x: torch.tensor(x, dtype=torch.int64))):
        for chunk in (vals, vals[-3:], vals[len(vals) // 2:len(vals) // 2 + 1]):
            try:
                a = [int(t) for t in binary_array_to_gray(conv(chunk)).tolist()]
                bb = [int(t) for t in gray_array_to_binary(conv(chunk)).tolist()]
            except Exception as e:  # noqa: BLE001
                res.viol("gray-utils", f"n<=2^60,{form}", "array=scalar", f"array form on {len(chunk)} structured integers up to {max(chunk)}: {type(e).__name__}: {str(e)[:160]}")
                continue
            res.ev(2 * len(chunk), nontrivial=2 * len(chunk), transitions=2)
            for n_, g_, b_ in zip(chunk, a, bb):
                if g_ != _g(n_) or b_ != gray_to_binary(n_):
                    res.viol("gray-utils", f"n<=2^60,{form}", "array=scalar", f"array forms at n={n_}: binary_array_to_gray -> {g_} (scalar {_g(n_)}), gray_array_to_binary -> {b_} (scalar {gray_to_binary(n_)})")
                    break
    for bad in (-1, -5):
        for f in (binary_to_gray, gray_to_binary):
            try:
                r = f(bad)
                res.viol("gray-utils", f"n={bad}", "bijection", f"{f.__name__}({bad}) returned {r} instead of raising")
            except ValueError:
                res.rejected += 1
    res.sample({"structured_values": len(fam)})


# ----------------------------------------------------------------------------- spelling equivalence of the constructors behind this property
# (positional / keyword / mixed spellings of one legal call configure the same object; shared helper kmc/spelling.py)
_cases0, _execute0, _component0 = cases, execute, component_of


def cases(tier, seed):  # noqa: F811
    yield from _cases0(tier, seed)
    yield f"{PID}|spelling", {"kind": "spelling", "tier": tier}


def execute(p, res):  # noqa: F811
    if p.get("kind") == "spelling":
        from kmc import spelling
        return spelling.run(PID, res)
    return _execute0(p, res)


def component_of(p):  # noqa: F811
    return "spelling" if p.get("kind") == "spelling" else _component0(p)


# ----------------------------------------------------------------------------- life-cycle equivalence of the components behind this property
# (deep copy / pickle / state_dict / eval-train / cast round trip / no_grad ... leave the behaviour unchanged; shared helper kmc/lifecycle.py)
_cases1, _execute1, _component1 = cases, execute, component_of


def cases(tier, seed):  # noqa: F811
    yield from _cases1(tier, seed)
    yield f"{PID}|lifecycle", {"kind": "lifecycle", "tier": tier}


def execute(p, res):  # noqa: F811
    if p.get("kind") == "lifecycle":
        from kmc import lifecycle
        return lifecycle.run(PID, res)
    return _execute1(p, res)


def component_of(p):  # noqa: F811
    return "lifecycle" if p.get("kind") == "lifecycle" else _component1(p)
