"""E3 – schedule explorer for thread-pool fan-out (DESIGN §2.3).

Branches are harness callables that block on a gate. The real ThreadPoolExecutor / as_completed machinery runs unchanged;
`ThreadPoolExecutor.submit` is wrapped only to RECORD the returned futures in submission order. A schedule is a completion
order; `feasible_orders(n, w)` enumerates every order the executor model allows (tasks start in submission order whenever
fewer than w are running). To play a schedule the harness waits until the driver thread is blocked, then opens the gates
one at a time, waiting for each future to be done before opening the next. Every schedule is run twice and must give
identical observations (determinism gate).
"""
import concurrent.futures as cf
import sys
import threading
import time


def feasible_orders(n, w):
    """all completion orders of n tasks submitted in order 0..n-1 to a pool of w workers"""
    w = n if w is None else min(w, n)
    out = []

    def rec(done, order):
        if len(order) == n:
            out.append(tuple(order))
            return
        started = [i for i in range(min(n, w + len(done))) if i not in done]
        for i in started:
            rec(done | {i}, order + [i])
    rec(frozenset(), [])
    return out


class Branch:
    def __init__(self, idx, log, fn):
        self.idx = idx
        self.gate = threading.Event()
        self.started = threading.Event()
        self.finished = threading.Event()
        self.log = log
        self.fn = fn
        self.calls = 0

    def __call__(self, x, *args, **kwargs):
        self.calls += 1
        self.log.append(("start", self.idx, x, args, tuple(sorted(kwargs.items()))))
        self.started.set()
        if not self.gate.wait(20.0):
            raise TimeoutError(f"gate {self.idx} never opened")
        out = self.fn(self.idx, x, *args, **kwargs)
        self.log.append(("end", self.idx))
        self.finished.set()
        return out


def _blocked(tid):
    fr = sys._current_frames().get(tid)
    if fr is None:
        return False
    # blocked = parked in threading's Event/Condition wait, and not merely inside Thread.start() (which also waits briefly)
    if not fr.f_code.co_filename.endswith("threading.py") or fr.f_code.co_name != "wait":
        return False
    f = fr
    while f is not None:
        if f.f_code.co_name == "start" and f.f_code.co_filename.endswith("threading.py"):
            return False
        f = f.f_back
    return True


def wait_blocked(tid, timeout=5.0):
    t0 = time.time()
    hits = 0
    while time.time() - t0 < timeout:
        if _blocked(tid):
            hits += 1
            if hits >= 2:
                return True
        else:
            hits = 0
        time.sleep(0.0005)
    return False


def play(make_model, n, order, x, args=(), kwargs=None, fn=None, step_timeout=1.0):
    """run model(x) in a driver thread and force the completion order `order`.
    returns dict(result|exception, log, futures_recorded, feasible, calls)"""
    kwargs = kwargs or {}
    log = []
    fn = fn or (lambda i, xx, *a, **k: ("r", i, xx))
    branches = [Branch(i, log, fn) for i in range(n)]
    model = make_model(branches)
    futures = []
    orig_submit = cf.ThreadPoolExecutor.submit

    def rec_submit(self, f, *a, **k):
        fut = orig_submit(self, f, *a, **k)
        futures.append(fut)
        return fut
    box = {}

    def driver():
        try:
            box["result"] = model(x, *args, **kwargs)
        except BaseException as e:  # noqa: BLE001
            box["exception"] = e
    cf.ThreadPoolExecutor.submit = rec_submit
    feasible = True
    try:
        th = threading.Thread(target=driver, daemon=True)
        th.start()
        # all tasks submitted (or, for an implementation without an executor, none recorded) and the driver parked
        t0 = time.time()
        while time.time() - t0 < 2.0 and th.is_alive() and not (len(futures) == n or (len(futures) == 0 and time.time() - t0 > 0.3)):
            time.sleep(0.0005)
        if not wait_blocked(th.ident):
            if th.is_alive():
                feasible = False
        for i in order:
            if not th.is_alive():
                break
            branches[i].gate.set()
            t0 = time.time()
            ok = False
            while time.time() - t0 < step_timeout:
                if len(futures) == n:
                    if futures[i].done():
                        ok = True
                        break
                elif branches[i].finished.is_set():
                    ok = True
                    break
                if not th.is_alive():
                    ok = True
                    break
                time.sleep(0.0002)
            if not ok:
                feasible = False          # this implementation cannot complete branch i now (e.g. it runs branches sequentially)
                break
            if len(futures) != n:
                wait_blocked(th.ident, 0.5)
        for b in branches:
            b.gate.set()
        th.join(10.0)
        if th.is_alive():
            box["exception"] = TimeoutError("driver did not finish")
    finally:
        cf.ThreadPoolExecutor.submit = orig_submit
    return {"result": box.get("result"), "exception": box.get("exception"), "log": log, "futures": len(futures), "feasible": feasible,
            "calls": [b.calls for b in branches], "ends": [e[1] for e in log if e[0] == "end"]}
