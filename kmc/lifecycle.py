"""Object life-cycle equivalence (shared by several properties; added after mutation wave 13).

A component that has been through an ordinary, semantically neutral step of PyTorch module machinery - deep copy, pickle round trip, state_dict()
into a second instance of the same configuration, eval() / train(), a cast round trip .double().float(), .to('cpu'), being wrapped in
nn.Sequential, being called under no_grad / inference_mode, being the second object of its configuration built in this process - is the same
component: a fixed probe (the behaviour the property talks about, on fixed inputs, randomness re-seeded) must return exactly what it returns on a
fresh object.  A differential oracle with no hand-written expectation.  A step a class declines with an exception is a rejection (allowed);
silently different behaviour is the violation.  Every (component, step) pair of the table is executed - the space is the finite product.
"""
import copy
import io
import pickle

from kmc import bfs


def _canon(v):
    import torch
    if isinstance(v, torch.Tensor):
        return bfs.canon_value(v.detach().to(torch.complex128) if v.is_complex() else v.detach().to(torch.float64))
    if isinstance(v, (list, tuple)):
        return tuple(_canon(x) for x in v)
    if isinstance(v, dict):
        return tuple(sorted((str(k), _canon(x)) for k, x in v.items()))
    return bfs.canon_value(v)


def steps(mk, probe, is_module, eval_neutral=True, other=None, reconf=None, cast_neutral=False, custom=(), restore_other=True):
    """-> list of (step name, thunk returning the probe's observation, 'self' | 'other': the fresh object it must equal)"""
    import torch

    def seeded(obj, ctx=None):
        torch.manual_seed(4242)
        if ctx is None:
            return probe(obj)
        with ctx():
            return probe(obj)
    out = [("deepcopy", lambda: seeded(copy.deepcopy(mk())), "self"),
           ("pickle", lambda: seeded(pickle.loads(pickle.dumps(mk()))), "self"),
           ("second-object", lambda: (seeded(mk()), seeded(mk()))[1], "self"),
           ("deepcopy-of-used", lambda: seeded(_used_copy(mk, seeded)), "self")]
    if is_module:
        def restored(src=mk, use_first=False):
            a, b = src(), mk()
            if use_first:
                seeded(b)
                _reset(b)
            b.load_state_dict(a.state_dict())
            return seeded(b)

        def saved():
            a, b = mk(), mk()
            buf = io.BytesIO()
            torch.save(a.state_dict(), buf)
            buf.seek(0)
            b.load_state_dict(torch.load(buf))
            return seeded(b)

        def sibling_scribbled():
            a, b = mk(), mk()
            _scribble(a)
            return seeded(b)
        out += [("state_dict", restored, "self"), ("torch.save/load of state_dict", saved, "self"),
                ("double().float()", lambda: seeded(mk().double().float()), "self"),
                ("to(cpu).float()", lambda: seeded(mk().to("cpu").float()), "self"),
                ("enable_grad", lambda: seeded(mk(), torch.enable_grad), "self"),     # (the engine runs the checks with autograd switched off: this is the default user mode)
                ("no_grad", lambda: seeded(mk(), torch.no_grad), "self"), ("inference_mode", lambda: seeded(mk(), torch.inference_mode), "self"),
                ("in nn.ModuleList", lambda: seeded(torch.nn.ModuleList([mk()])[0]), "self"),
                ("requires_grad_(False)", lambda: seeded(mk().requires_grad_(False)), "self"),
                ("sibling's tensors overwritten in place", sibling_scribbled, "self")]
        if cast_neutral:
            # configuration-only components (channels, constraints, metrics, thresholders hold no learnt or tabulated floating-point state): a
            # reduced-precision cast of the module, also as part of a parent container, must not round what was configured or counted
            out += [("half().float()", lambda: seeded(mk().half().float()), "self"), ("to(bfloat16).float()", lambda: seeded(mk().to(torch.bfloat16).float()), "self"),
                    ("half() as a child of nn.Sequential, then float()", lambda: seeded(torch.nn.Sequential(mk()).half().float()[0]), "self"),
                    ("half()", lambda: seeded(mk().half()), "self"), ("to(bfloat16)", lambda: seeded(mk().to(torch.bfloat16)), "self")]
        if eval_neutral:
            out += [("eval().train()", lambda: seeded(mk().eval().train()), "self"), ("eval()", lambda: seeded(mk().eval()), "self"), ("train()", lambda: seeded(mk().train()), "self")]
        if other is not None and restore_other and _canon(dict(other().state_dict())) != _canon(dict(mk().state_dict())):
            # (only where the checkpoint carries the configuration: a class that keeps its configuration in plain attributes has equal checkpoints)
            out += [("state_dict of another configuration", lambda: restored(other), "other"),
                    ("used, then state_dict of another configuration", lambda: restored(other, True), "other")]
    if other is not None:
        def after_other():
            o = other()
            seeded(o)
            return seeded(mk())
        out.append(("another configuration built and used first", after_other, "self"))
    for cname, cfn, cwhich in custom:
        out.append((cname, (lambda cfn=cfn: cfn(seeded)), cwhich))
    if reconf is not None:
        def reconfigured(copy_too=False):
            o = mk()
            seeded(o)
            _reset(o)
            reconf(o)
            return seeded(copy.deepcopy(o) if copy_too else o)
        out += [("used, then re-configured through its public attributes", reconfigured, "other"),
                ("used, re-configured, deep-copied", lambda: reconfigured(True), "other")]
    return out


def _reset(o):
    for nm in ("reset_state", "reset"):
        if hasattr(o, nm):
            try:
                getattr(o, nm)()
            except Exception:  # noqa: BLE001
                pass
            return


def _scribble(m):
    """overwrite, in place, every tensor the object holds (buffers, parameters, plain tensor attributes, recursively through sub-modules)"""
    import torch
    seen = set()
    mods = list(m.modules()) if isinstance(m, torch.nn.Module) else [m]
    with torch.no_grad():
        for sub in mods:
            for v in list(vars(sub).values()) + list(getattr(sub, "_buffers", {}).values()) + list(getattr(sub, "_parameters", {}).values()):
                if isinstance(v, torch.Tensor) and id(v) not in seen and v.numel():
                    seen.add(id(v))
                    try:
                        if v.dtype == torch.bool:
                            v.logical_not_()
                        elif v.dtype.is_floating_point or v.dtype.is_complex:
                            v.mul_(-3.0).add_(0.37)
                        else:
                            v.add_(1)
                    except Exception:  # noqa: BLE001
                        pass


def _used_copy(mk, seeded):
    o = mk()
    seeded(o)
    _reset(o)
    return copy.deepcopy(o)


def table(pid):
    """-> list of (label, factory, probe, is_module, eval_neutral)"""
    import torch
    f32 = torch.float32
    T = []

    def enc_probe(k, n):
        msgs = torch.tensor([[(i >> j) & 1 for j in range(k)] for i in range(min(1 << k, 16))], dtype=f32)

        def probe(e):
            cw = e(msgs)
            w = cw.clone()
            w[:, 0] = 1 - w[:, 0]
            outs = [cw, e.calculate_syndrome(w), e.generator_matrix, e.check_matrix, int(e.code_length), int(e.code_dimension)]
            try:
                outs.append(e.inverse_encode(w))
            except Exception as ex:  # noqa: BLE001
                outs.append(type(ex).__name__)
            md = getattr(e, "minimum_distance", None)
            outs.append(int(md() if callable(md) else md) if md is not None else None)
            return outs
        return probe
    if pid in ("C01", "C03", "C04", "C02", "C10", "C11", "C09", "C20"):
        from kaira.models.fec import decoders as D
        from kaira.models.fec import encoders as E
        encs = {"hamming3": (lambda: E.HammingCodeEncoder(3), 4, 7), "hamming3-ext-list": (lambda: E.HammingCodeEncoder(3, extended=True, information_set=[7, 5, 2, 0]), 4, 8),
                "bch15_7": (lambda: E.BCHCodeEncoder(4, 5), 7, 15), "bch15_5-right": (lambda: E.BCHCodeEncoder(4, 7, information_set="right"), 5, 15),
                "cyclic7": (lambda: E.CyclicCodeEncoder(7, generator_polynomial=0b1011), 4, 7), "cyclic-std": (lambda: E.CyclicCodeEncoder.create_standard_code("BCH(15,7)"), 7, 15),
                "golay": (lambda: E.GolayCodeEncoder(), 12, 23), "rm13": (lambda: E.ReedMullerCodeEncoder(1, 3), 4, 8), "rm24": (lambda: E.ReedMullerCodeEncoder(2, 4), 11, 16),
                "rep5": (lambda: E.RepetitionCodeEncoder(5), 1, 5), "spc4": (lambda: E.SingleParityCheckCodeEncoder(4), 4, 5),
                "systematic": (lambda: E.SystematicLinearBlockCodeEncoder(parity_submatrix=torch.tensor([[1.0, 1, 0], [0, 1, 1]]), information_set=[4, 1]), 2, 5),
                "generic": (lambda: E.LinearBlockCodeEncoder(generator_matrix=torch.tensor([[1.0, 1, 0, 1, 0], [0, 1, 1, 1, 1]])), 2, 5),
                "ldpc": (lambda: E.LDPCCodeEncoder(check_matrix=torch.tensor([[1.0, 1, 0, 1, 0, 0], [0, 1, 1, 0, 1, 0], [0, 0, 0, 1, 1, 1]])), 3, 6),
                "rs": (lambda: E.ReedSolomonCodeEncoder(3, 3), None, 7)}
        others = {"hamming3": lambda: E.HammingCodeEncoder(3, information_set="right"), "hamming3-ext-list": lambda: E.HammingCodeEncoder(3, extended=True, information_set="left"),
                  "bch15_7": lambda: E.BCHCodeEncoder(4, 5, information_set="right"), "bch15_5-right": lambda: E.BCHCodeEncoder(4, 7), "cyclic7": lambda: E.CyclicCodeEncoder(7, generator_polynomial=0b1011, information_set="right"),
                  "cyclic-std": lambda: E.CyclicCodeEncoder.create_standard_code("BCH(15,7)", information_set="right"), "golay": lambda: E.GolayCodeEncoder(information_set="right"),
                  "systematic": lambda: E.SystematicLinearBlockCodeEncoder(parity_submatrix=torch.tensor([[1.0, 0, 1], [1, 1, 1]]), information_set=[0, 3]),
                  "generic": lambda: E.LinearBlockCodeEncoder(generator_matrix=torch.tensor([[1.0, 0, 1, 1, 0], [1, 1, 0, 0, 1]])),
                  "ldpc": lambda: E.LDPCCodeEncoder(check_matrix=torch.tensor([[1.0, 0, 1, 1, 0, 0], [0, 1, 1, 0, 1, 0], [1, 1, 0, 0, 0, 1]])),
                  "rs": lambda: E.ReedSolomonCodeEncoder(3, 3, information_set="right")}
        if pid in ("C01", "C03", "C04"):
            for nm, (mk, k, n) in encs.items():
                if k is None:
                    k = int(mk().code_dimension)
                T.append((f"encoder:{nm}", mk, enc_probe(k, n), True, True, {"other": others.get(nm)}))
        if pid == "C11":
            for nm, mk in (("polar8_4", lambda: E.PolarCodeEncoder(4, 8, frozen_zeros=True)), ("polar16_8i", lambda: E.PolarCodeEncoder(8, 16, polar_i=True)),
                           ("polar8-mask", lambda: E.PolarCodeEncoder(4, 8, load_rank=False, info_indices=torch.tensor([0, 1, 0, 1, 0, 1, 1, 0], dtype=torch.bool)))):
                def pprobe(e):
                    k = int(e.code_dimension)
                    msgs = torch.tensor([[(i >> j) & 1 for j in range(k)] for i in range(16)], dtype=f32)
                    return [e(msgs), e.info_indices if hasattr(e, "info_indices") else None]
                T.append((f"encoder:{nm}", mk, pprobe, True, True))
        if pid in ("C02", "C10", "C11", "C09", "C20"):
            def dec_entry(label, mkenc, mkdec, soft, mkenc_other=None, reconf=None, mkdec_other=None):
                def mk():
                    return mkdec(mkenc())
                extra = {"restore_other": False}     # (a decoder's own tables are built at construction; what is restored is the ENCODER, before the decoder is built)
                if mkenc_other is not None or mkdec_other is not None:
                    extra["other"] = lambda: (mkdec_other or mkdec)((mkenc_other or mkenc)())
                if mkenc_other is not None:
                    def on_restored(seeded, used=False):
                        e = mkenc()
                        if used:
                            k_ = int(e.code_dimension)
                            w_ = e(torch.ones(2, k_))
                            for fn in ("inverse_encode", "calculate_syndrome"):
                                try:
                                    getattr(e, fn)(w_)
                                except Exception:  # noqa: BLE001
                                    pass
                        sd_other = mkenc_other().state_dict()
                        if _canon(dict(sd_other)) == _canon(dict(e.state_dict())):
                            raise ValueError("the checkpoint does not carry the difference between the two configurations")     # -> counted as declined
                        e.load_state_dict(sd_other)
                        return seeded((mkdec_other or mkdec)(e))
                    extra["custom"] = [("built on an encoder restored from another configuration's state_dict", on_restored, "other"),
                                       ("built on an encoder that was used and then restored from another configuration's state_dict", lambda sd: on_restored(sd, True), "other")]
                if reconf is not None:
                    extra["reconf"] = reconf

                def probe(d):
                    e = d.encoder
                    k, n = int(e.code_dimension), int(e.code_length)
                    msgs = torch.tensor([[(i * 5 >> j) & 1 for j in range(k)] for i in range(8)], dtype=f32)
                    cw = e(msgs)
                    if soft:
                        mag = torch.tensor([0.7 + 0.31 * ((3 * i) % n) for i in range(n)], dtype=f32)
                        y = (1 - 2 * cw) * mag
                        y[:, 1] = -0.4 * y[:, 1]
                        st, rows = 777, []
                        for r_ in range(48):              # noisy words on which the decoding rules / regimes disagree
                            row = []
                            for c_ in range(n):
                                st = (st * 1103515245 + 12345) % (1 << 31)
                                row.append((1 - 2 * float(cw[r_ % cw.shape[0], c_])) * 0.9 + 2.2 * (st / (1 << 31) - 0.5) * 2)
                            rows.append(row)
                        return [cw, d(y), d(y[:1]), d(y), d(torch.tensor(rows, dtype=f32))]
                    w = cw.clone()
                    w[:, 2 % n] = 1 - w[:, 2 % n]
                    return [cw, d(w), d(w[:1]), d(w)]
                return (f"decoder:{label}", mk, probe, True, True, extra)

            def set_regime(d):
                d.regime = "min_sum"
            p84 = lambda: E.PolarCodeEncoder(4, 8, frozen_zeros=True)  # noqa: E731
            hard = [("syndrome-hamming", encs["hamming3"][0], lambda e: D.SyndromeLookupDecoder(e), others["hamming3"]), ("bruteforce-hamming", encs["hamming3"][0], lambda e: D.BruteForceMLDecoder(e), others["hamming3"]),
                    ("bm-bch15_7", encs["bch15_7"][0], lambda e: D.BerlekampMasseyDecoder(e), others["bch15_7"]), ("syndrome-bch15_7", encs["bch15_7"][0], lambda e: D.SyndromeLookupDecoder(e), others["bch15_7"]),
                    ("syndrome-generic", encs["generic"][0], lambda e: D.SyndromeLookupDecoder(e), others["generic"]), ("reed-rm13", encs["rm13"][0], lambda e: D.ReedMullerDecoder(e), None)]
            softd = [("bp-tree", encs["ldpc"][0], lambda e: D.BeliefPropagationDecoder(e, bp_iters=6), others["ldpc"]), ("bp-tree-taylor", encs["ldpc"][0], lambda e: D.BeliefPropagationDecoder(e, bp_iters=6, arctanh=False), None),
                     ("minsum-tree", encs["ldpc"][0], lambda e: D.MinSumLDPCDecoder(e, bp_iters=6), others["ldpc"]), ("minsum-tree-normalized", encs["ldpc"][0], lambda e: D.MinSumLDPCDecoder(e, bp_iters=6, normalized=True), None),
                     ("wagner-spc4", encs["spc4"][0], lambda e: D.WagnerSoftDecisionDecoder(e), None), ("softrm-rm13", encs["rm13"][0], lambda e: D.ReedMullerDecoder(e, input_type="soft"), None)]
            for (label, me, md, mo), soft in {"C02": [(h, False) for h in hard], "C10": [(s_, True) for s_ in softd], "C11": [], "C09": [(hard[2], False), (hard[4], False), (softd[0], True)], "C20": [(hard[1], False), (softd[2], True)]}[pid]:
                T.append(dec_entry(label, me, md, soft, mo))
            if pid in ("C11", "C09", "C20"):
                T.append(dec_entry("sc-polar8_4", p84, lambda e: D.SuccessiveCancellationDecoder(e), True, None, set_regime, lambda e: D.SuccessiveCancellationDecoder(e, regime="min_sum")))
            if pid == "C11":
                T.append(dec_entry("polarbp-polar8_4", p84, lambda e: D.BeliefPropagationPolarDecoder(e, bp_iters=5), True, None, set_regime, lambda e: D.BeliefPropagationPolarDecoder(e, bp_iters=5, regime="min_sum")))
                T.append(dec_entry("polarbp-es-polar8_4", p84, lambda e: D.BeliefPropagationPolarDecoder(e, bp_iters=5, early_stop=True), True))
                T.append(dec_entry("sc-minsum-polar16_8", lambda: E.PolarCodeEncoder(8, 16), lambda e: D.SuccessiveCancellationDecoder(e, regime="min_sum"), True, lambda: E.PolarCodeEncoder(8, 16, frozen_zeros=True)))
    if pid in ("C05", "C06", "C14", "C15", "C09", "C20"):
        import kaira.modulations as M
        mods = {"bpsk": (lambda: M.BPSKModulator(), lambda: M.BPSKDemodulator(), 1), "qpsk": (lambda: M.QPSKModulator(), lambda: M.QPSKDemodulator(), 2),
                "psk8": (lambda: M.PSKModulator(8), lambda: M.PSKDemodulator(8), 3), "psk8-natural": (lambda: M.PSKModulator(8, gray_coding=False), lambda: M.PSKDemodulator(8, gray_coding=False), 3),
                "qam16": (lambda: M.QAMModulator(16), lambda: M.QAMDemodulator(16), 4), "qam16-raw": (lambda: M.QAMModulator(16, normalize=False, gray_coding=False), lambda: M.QAMDemodulator(16, normalize=False, gray_coding=False), 4),
                "pam4": (lambda: M.PAMModulator(4), lambda: M.PAMDemodulator(4), 2), "dpsk4": (lambda: M.DPSKModulator(4), lambda: M.DPSKDemodulator(4), 2),
                "dqpsk": (lambda: M.DQPSKModulator(), lambda: M.DQPSKDemodulator(), 2), "oqpsk": (lambda: M.OQPSKModulator(), lambda: M.OQPSKDemodulator(), 2),
                "pi4qpsk": (lambda: M.Pi4QPSKModulator(), lambda: M.Pi4QPSKDemodulator(), 2), "pi4qpsk-natural": (lambda: M.Pi4QPSKModulator(gray_coded=False), lambda: M.Pi4QPSKDemodulator(gray_coded=False), 2)}
        mods0 = dict(mods)
        if pid in ("C09", "C20"):
            mods = {k_: v for k_, v in mods.items() if k_ in ("qpsk", "qam16", "psk8")}
        for nm, (mkm, mkd, b) in mods.items():
            bits = torch.tensor([[(i * 7 + j * 3 + (i * j) % 2) % 2 for j in range(6 * b)] for i in range(3)], dtype=f32)

            def mprobe(m, bits=bits):
                return [m(bits), getattr(m, "constellation", None), getattr(m, "bit_patterns", None), int(m.bits_per_symbol)]
            y = None

            def dprobe(d, mkm=mkm, bits=bits):
                y = mkm()(bits)
                y = y + 0.05 * torch.exp(1j * torch.arange(y.shape[-1], dtype=f32)).to(y.dtype) if y.is_complex() else y + 0.05
                return [d(y), d(y, 0.3), d(y, torch.tensor(2.0)), getattr(d, "constellation", None)]
            stateful = nm in ("dpsk4", "dqpsk", "pi4qpsk", "pi4qpsk-natural", "oqpsk")
            alt = {"psk8": "psk8-natural", "psk8-natural": "psk8", "qam16": "qam16-raw", "qam16-raw": "qam16", "pi4qpsk": "pi4qpsk-natural", "pi4qpsk-natural": "pi4qpsk", "pam4": "pam4-natural", "dpsk4": "dpsk4-natural", "dqpsk": "dqpsk-natural"}.get(nm)
            altm = dict(mods0, **{"pam4-natural": (lambda: M.PAMModulator(4, gray_coding=False), lambda: M.PAMDemodulator(4, gray_coding=False), 2),
                                  "dpsk4-natural": (lambda: M.DPSKModulator(4, gray_coding=False), lambda: M.DPSKDemodulator(4, gray_coding=False), 2),
                                  "dqpsk-natural": (lambda: M.DQPSKModulator(gray_coded=False), lambda: M.DQPSKDemodulator(gray_coded=False), 2)}).get(alt)
            if pid in ("C05", "C14", "C09", "C20"):
                T.append((f"modulator:{nm}", mkm, mprobe, True, not stateful, {"other": altm[0] if altm else None}))
            if pid in ("C05", "C06", "C15", "C09", "C20"):
                T.append((f"demodulator:{nm}", mkd, dprobe, True, not stateful, {"other": altm[1] if altm else None}))
    if pid in ("C07", "C12", "C13", "C19"):
        import kaira.channels as K
        x_r = torch.tensor([[0.5, -1.0, 2.0, 0.25, -0.75, 1.5, 1.0, -2.0]], dtype=f32).repeat(2, 1)
        x_c = torch.complex(x_r, torch.flip(x_r, [1]))
        xb = torch.tensor([[0.0, 1, 1, 0, 1, 0, 0, 1, 1, 1, 0, 0]], dtype=f32).repeat(3, 1)
        chans = {}
        if pid in ("C07", "C19"):
            chans.update({"awgn-power": (lambda: K.AWGNChannel(avg_noise_power=0.3), (x_r, x_c)), "awgn-snr": (lambda: K.AWGNChannel(snr_db=7.0), (x_r, x_c)),
                          "laplacian-scale": (lambda: K.LaplacianChannel(scale=0.4), (x_r, x_c)), "laplacian-snr": (lambda: K.LaplacianChannel(snr_db=3.0), (x_r, x_c)),
                          "nonlinear-tanh": (lambda: K.NonlinearChannel(torch.tanh, add_noise=True, snr_db=5.0), (x_r,)), "phase-noise": (lambda: K.PhaseNoiseChannel(0.2), (x_c,))})
        if pid == "C12":
            chans.update({"bsc": (lambda: K.BinarySymmetricChannel(0.3), (xb, 1 - 2 * xb)), "bec": (lambda: K.BinaryErasureChannel(0.3), (xb, 1 - 2 * xb)), "z": (lambda: K.BinaryZChannel(0.3), (xb,)),
                          "bec-symbol": (lambda: K.BinaryErasureChannel(0.4, erasure_symbol=7), (xb,)), "bsc-tensor-p": (lambda: K.BinarySymmetricChannel(torch.tensor(0.25)), (xb,))})
        if pid in ("C13", "C19"):
            chans.update({"rayleigh": (lambda: K.RayleighFadingChannel(coherence_time=3, avg_noise_power=0.2), (x_c, x_r)), "rician-snr": (lambda: K.RicianFadingChannel(k_factor=2.0, coherence_time=2, snr_db=6.0), (x_c,)),
                          "lognormal": (lambda: K.LogNormalFadingChannel(shadow_sigma_db=4.0, coherence_time=4, avg_noise_power=0.1), (x_c,)),
                          "flat-rician": (lambda: K.FlatFadingChannel("rician", 5, k_factor=1.0, snr_db=10.0), (x_c,))})
        def setter(**kw):
            def f(o):
                for a_, v_ in kw.items():
                    cur = getattr(o, a_)
                    setattr(o, a_, torch.tensor(v_, dtype=cur.dtype) if isinstance(cur, torch.Tensor) else v_)
            return f
        rec = {"awgn-power": {"other": lambda: K.AWGNChannel(avg_noise_power=0.05), "reconf": setter(avg_noise_power=0.05)}, "awgn-snr": {"other": lambda: K.AWGNChannel(snr_db=-3.0), "reconf": setter(snr_db=-3.0)},
               "laplacian-scale": {"other": lambda: K.LaplacianChannel(scale=1.7), "reconf": setter(scale=1.7)}, "laplacian-snr": {"other": lambda: K.LaplacianChannel(snr_db=12.0), "reconf": setter(snr_db=12.0)},
               "phase-noise": {"other": lambda: K.PhaseNoiseChannel(0.05), "reconf": setter(phase_noise_std=0.05)},
               "bsc": {"other": lambda: K.BinarySymmetricChannel(0.05), "reconf": setter(crossover_prob=0.05)}, "bec": {"other": lambda: K.BinaryErasureChannel(0.6), "reconf": setter(erasure_prob=0.6)},
               "z": {"other": lambda: K.BinaryZChannel(0.8), "reconf": setter(error_prob=0.8)},
               "rayleigh": {"other": lambda: K.RayleighFadingChannel(coherence_time=3, avg_noise_power=0.01), "reconf": setter(avg_noise_power=0.01)},
               "rician-snr": {"other": lambda: K.RicianFadingChannel(k_factor=2.0, coherence_time=2, snr_db=20.0), "reconf": setter(snr_db=20.0)},
               "lognormal": {"other": lambda: K.LogNormalFadingChannel(shadow_sigma_db=4.0, coherence_time=4, avg_noise_power=0.9), "reconf": setter(avg_noise_power=0.9)}}
        for nm, (mk, xs) in chans.items():
            def cprobe(c, xs=xs):
                outs = []
                for x in xs:
                    torch.manual_seed(99)
                    outs.append(c(x))
                    outs.append(c(x))
                return outs
            T.append((f"channel:{nm}", mk, cprobe, True, True, dict(rec.get(nm, {}), cast_neutral=True)))
    if pid in ("C08", "C19", "C20"):
        import kaira.constraints as KC
        xs = [torch.tensor([[1.0, -2.0, 0.5, 3.0, -1.0, 0.25, 2.0, -0.5], [9.0, 0.1, 0.1, 0.1, 0.1, 0.1, 0.1, 0.1]], dtype=f32)]
        xs.append(torch.complex(xs[0][:, 0::2], xs[0][:, 1::2]))
        cons = {"total": lambda: KC.TotalPowerConstraint(2.0), "average": lambda: KC.AveragePowerConstraint(0.5), "papr": lambda: KC.PAPRConstraint(2.0),
                "per-antenna": lambda: KC.PerAntennaPowerConstraint(uniform_power=1.5), "per-antenna-budget": lambda: KC.PerAntennaPowerConstraint(power_budget=torch.tensor([0.7, 1.3])),
                "peak": lambda: KC.PeakAmplitudeConstraint(1.2), "composite": lambda: KC.CompositeConstraint([KC.TotalPowerConstraint(2.0), KC.PeakAmplitudeConstraint(0.9)])}
        for nm, mk in cons.items():
            def kprobe(c, nm=nm):
                outs = []
                for x in (xs[:1] if nm in ("peak", "composite") else xs):
                    xx = x.reshape(2, 2, -1) if nm.startswith("per-antenna") else x
                    outs.append(c(xx))
                    outs.append(c(xx[:1]))
                return outs
            def ksetter(**kw):
                def f(o):
                    for a_, v_ in kw.items():
                        setattr(o, a_, v_)
                return f
            krec = {"per-antenna-budget": {"other": lambda: KC.PerAntennaPowerConstraint(power_budget=torch.tensor([0.1, 0.3]))},
                    "total": {"other": lambda: KC.TotalPowerConstraint(0.7), "reconf": ksetter(total_power=0.7)}, "average": {"other": lambda: KC.AveragePowerConstraint(3.0), "reconf": ksetter(average_power=3.0)},
                    "papr": {"other": lambda: KC.PAPRConstraint(1.4), "reconf": ksetter(max_papr=1.4)}, "peak": {"other": lambda: KC.PeakAmplitudeConstraint(0.6), "reconf": ksetter(max_amplitude=0.6)},
                    "per-antenna": {"other": lambda: KC.PerAntennaPowerConstraint(uniform_power=0.4), "reconf": ksetter(uniform_power=0.4)}}
            T.append((f"constraint:{nm}", mk, kprobe, True, True, dict(krec.get(nm, {}), cast_neutral=True)))
    if pid == "C15":
        from kaira.models.binary import soft_bit_thresholding as S
        L = S.InputType.LLR
        llr = torch.tensor([[2.0, -2.0, -3.0, 4.0, 0.5, -0.25], [-1.0, -1.0, 1.0, 1.0, -1.0, 1.0]], dtype=f32)
        for nm, mk in {"fixed": lambda: S.FixedThresholder(threshold=0.0, input_type=L), "adaptive-mean": lambda: S.AdaptiveThresholder(method="mean", input_type=L), "llr": lambda: S.LLRThresholder(),
                       "llr-soft": lambda: S.LLRThresholder(output_type=S.OutputType.SOFT), "mindist": lambda: S.MinDistanceThresholder(input_type=L), "hysteresis": lambda: S.HysteresisThresholder(input_type=L),
                       "weighted": lambda: S.WeightedThresholder(weights=1.0, input_type=L), "dynamic": lambda: S.DynamicThresholder(input_type=L),
                       "repetition": lambda: S.RepetitionSoftBitDecoder(repetition_factor=3, soft_combine_method="mean", input_type=L),
                       "ensemble": lambda: S.SoftBitEnsembleThresholder([S.LLRThresholder(), S.WeightedThresholder(weights=1.0, input_type=L), S.LLRThresholder(confidence_scaling=2.0)])}.items():
            T.append((f"consumer:{nm}", mk, (lambda c: [c(llr), c(llr[:1])]), True, nm not in ("hysteresis", "dynamic"), {"cast_neutral": nm not in ("hysteresis", "dynamic")}))
    if pid == "C16":
        from kaira.metrics.signal.ber import BitErrorRate
        from kaira.metrics.signal.bler import BlockErrorRate
        a = torch.tensor([[0.0, 1, 1, 0, 1, 0, 0, 1], [1, 1, 0, 0, 1, 0, 1, 1]], dtype=f32)
        b_ = torch.tensor([[0.0, 1, 0, 0, 1, 0, 0, 1], [1, 1, 0, 0, 1, 0, 1, 1]], dtype=f32)

        def mprobe(m):
            outs = [m(a, b_)]
            m.update(a, b_)
            m.update(b_, b_)
            outs.append(m.compute())
            m.reset()
            m.update(a, 1 - a)
            outs.append(m.compute())
            return outs
        def mprobe_long(m):
            outs = mprobe(m)
            m.reset()
            for i in range(120):                      # 120 updates of 5 x 7 bits: 4200 bits, beyond what half / bfloat16 count exactly
                xa = ((torch.arange(35).reshape(5, 7) * (i + 3)) % 5 < 2).to(f32)
                xb_ = ((torch.arange(35).reshape(5, 7) * (i + 1)) % 7 < 3).to(f32)
                m.update(xa, xb_)
            outs.append(m.compute())
            return outs
        for nm, mk in {"ber": lambda: BitErrorRate(), "ber-thr": lambda: BitErrorRate(threshold=0.25), "bler": lambda: BlockErrorRate(), "bler4": lambda: BlockErrorRate(block_size=4),
                       "bler2-none": lambda: BlockErrorRate(block_size=2, reduction="none")}.items():
            T.append((f"metric:{nm}", mk, mprobe_long if nm == "ber" else mprobe, True, True, {"cast_neutral": True}))
    if pid == "C17":
        from kaira.models.base import BaseModel
        from kaira.models.generic.branching import BranchingModel
        from kaira.models.generic.parallel import ParallelModel
        from kaira.models.generic.sequential import SequentialModel

        def mk_seq():
            return SequentialModel([_Affine(2.0, 1.0), _Affine(3.0, -1.0), _Affine(0.5, 0.25)])

        def mk_par():
            m = ParallelModel()
            for nm_, st in (("zeta", _Affine(2.0, 1.0)), ("alpha", _Affine(3.0, 0.0)), ("mid", _Affine(-1.0, 0.5))):
                m.add_step(st, nm_)
            return m

        def mk_br():
            m = BranchingModel()
            m.add_branch("big", _gt1, _Affine(2.0, 0.0))
            m.add_branch("small", _lt0, _Affine(-1.0, 0.0))
            m.set_default_branch(_Affine(1.0, 100.0))
            return m
        def mk_mixed():
            return SequentialModel([_Affine(2.0, 1.0), _plus_one, _Affine(3.0, -1.0), _times_half])

        def mk_conf():
            from kaira.models.base import ConfigurableModel
            m = ConfigurableModel()
            for st in (_plus_one, _Affine(2.0, 0.0), _times_half):
                m.add_step(st)
            return m
        x = torch.tensor([1.0, -2.0, 0.5])
        T.append(("model:sequential-with-plain-callables", mk_mixed, (lambda m: [m(x), len(m.steps)]), True, True))
        T.append(("model:configurable-with-plain-callables", mk_conf, (lambda m: [m(x), len(m.steps)]), True, True))
        T.append(("model:sequential", mk_seq, (lambda m: [m(x), m(x * 2)]), True, True))
        T.append(("model:parallel", mk_par, (lambda m: [m(x), list(m(x).keys()) if isinstance(m(x), dict) else None]), True, True))
        T.append(("model:branching", mk_br, (lambda m: [m(torch.tensor(3.0)), m(torch.tensor(-3.0)), m(torch.tensor(0.5)), m(torch.tensor(3.0), True)[1]]), True, True))
        assert BaseModel
    if pid == "C18":
        from kaira.models.fec.algebra import BinaryPolynomial, FiniteBifield

        def fprobe(F):
            a, b = F(5 % F.size), F((F.size - 1))
            al = F.primitive_element()
            return [(a + b).value, (a * b).value, (b * b.inverse()).value if b.value else None, al.value, [c.value for c in b.conjugates()], b.minimal_polynomial().value, b.trace(), (al ** 5).value,
                    F == FiniteBifield(F.m), (a == F(a.value)), F.modulus.value]
        for m_ in (1, 2, 4, 8, 11, 16):
            T.append((f"field:m={m_}", (lambda m_=m_: FiniteBifield(m_)), fprobe, False, False))

        def eprobe(pair):
            a, b = pair
            return [(a + b).value, (a * b).value, a.inverse().value, a == b, hash(a) == hash(a.field(a.value)), a.field.m]
        T.append(("element:m=6", (lambda: (FiniteBifield(6)(37), FiniteBifield(6)(11))), eprobe, False, False))
        # a polynomial whose public `value` is re-assigned after use is the polynomial of the new value (only the DIVIDEND is re-assigned and only
        # product / remainder / degree are probed: a stale divisor could make the library's division loop run for ever, which no harness survives)
        def pset(pr):
            pr[0].value = 0b1000000000011011
        pprobe_ = lambda pr: [(pr[0] * pr[1]).value, (pr[0] % pr[1]).value, pr[0].degree, pr[1].degree]  # noqa: E731
        T.append(("polynomial", (lambda: (BinaryPolynomial(0b110101), BinaryPolynomial(0b1011))), pprobe_, False, False,
                  {"other": lambda: (BinaryPolynomial(0b1000000000011011), BinaryPolynomial(0b1011)), "reconf": pset}))
    if pid == "C19":
        try:
            from kaira.models.image.bourtsoulatze2019_deepjscc import Bourtsoulatze2019DeepJSCCDecoder, Bourtsoulatze2019DeepJSCCEncoder
            img = (torch.arange(2 * 3 * 16 * 16, dtype=f32).reshape(2, 3, 16, 16) % 17) / 17.0

            def mk_e():
                torch.manual_seed(7)
                return Bourtsoulatze2019DeepJSCCEncoder(num_transmitted_filters=4).eval()

            def mk_d():
                torch.manual_seed(8)
                return Bourtsoulatze2019DeepJSCCDecoder(num_transmitted_filters=4).eval()
            T.append(("image:bourtsoulatze-encoder", mk_e, (lambda e: [e(img)]), True, False))
            T.append(("image:bourtsoulatze-decoder", mk_d, (lambda d: [d(mk_e()(img))]), True, False))
        except Exception:  # noqa: BLE001
            pass
    return T


# module-level callables / stages so that pickle has something importable
def _gt1(x):
    return x > 1


def _lt0(x):
    return x < 0


def _plus_one(x, *args, **kwargs):
    return x + 1


def _times_half(x, *args, **kwargs):
    return x * 0.5


def _affine_cls():
    import torch

    class Affine(torch.nn.Module):
        def __init__(self, a, b):
            super().__init__()
            self.register_buffer("a", torch.tensor(a))
            self.b = b

        def forward(self, x, *args, **kwargs):
            return x * self.a + self.b
    return Affine


def _Affine(a, b):
    global _AFF
    try:
        cls = _AFF
    except NameError:
        cls = _AFF = _affine_cls()
        cls.__module__, cls.__qualname__ = __name__, "_AFF"
    return cls(a, b)


def run(pid, res, component="lifecycle"):
    import torch
    from kmc.spelling import _diff
    n = 0
    tab = table(pid)
    for ent in tab:
        label, mk, probe, is_module, eval_neutral = ent[:5]
        extra = ent[5] if len(ent) > 5 else {}
        other, reconf = extra.get("other"), extra.get("reconf")
        refs = {}
        try:
            torch.manual_seed(4242)
            refs["self"] = _canon(probe(mk()))
            if other is not None:
                try:
                    torch.manual_seed(4242)
                    refs["other"] = _canon(probe(other()))
                except Exception:  # noqa: BLE001   (the library declines the other configuration: nothing to compare with)
                    res.rejected += 1
                    other = reconf = None
        except Exception as e:  # noqa: BLE001
            res.viol(component, label, "raises", f"probe on a fresh object: {type(e).__name__}: {str(e)[:200]}")
            continue
        for sname, thunk, which in steps(mk, probe, is_module, eval_neutral, other, reconf if other is not None else None, bool(extra.get("cast_neutral")), extra.get("custom", ()), extra.get("restore_other", True)):
            try:
                got = _canon(thunk())
            except Exception:  # noqa: BLE001   (a class may decline a step: not picklable, strict state_dict, read-only attribute, ...)
                res.rejected += 1
                continue
            n += 1
            res.ev(1, nontrivial=1, transitions=1)
            if got != refs[which]:
                res.viol(component, f"{label},{sname}", "same-as-fresh", f"{label}: {sname} - behaves differently from a fresh object of "
                         f"{'that' if which == 'other' else 'the same'} configuration on the same probe: " + "; ".join(_diff(refs[which], got))[:400], {"step": sname})
    res.sample({"lifecycle_components": len(tab), "steps_executed": n})
