"""Catalogue of modulation schemes (DESIGN §5 C05/C06/C14/C15). Specs are picklable tuples (scheme, cfg, params)."""
import math


def schemes(tier, with_registry=True):
    q = tier == "quick"
    out = []
    for co in (True, False):
        out.append(("bpsk", f"complex={int(co)}", {"complex_output": co}))
    for nz in (True, False):
        out.append(("qpsk", f"norm={int(nz)}", {"normalize": nz}))
    for M in (4, 8, 16, 32, 64):
        for g in (True, False):
            out.append(("psk", f"M={M},gray={int(g)}", {"order": M, "gray_coding": g}))
    for M in (4, 16, 64, 256):
        for g in (True, False):
            for nz in (True, False):
                out.append(("qam", f"M={M},gray={int(g)},norm={int(nz)}", {"order": M, "gray_coding": g, "normalize": nz}))
    for M in (2, 4, 8, 16, 32, 64):
        for g in (True, False):
            for nz in (True, False):
                out.append(("pam", f"M={M},gray={int(g)},norm={int(nz)}", {"order": M, "gray_coding": g, "normalize": nz}))
    for M in (2, 4, 8, 16):
        for g in (True, False):
            out.append(("dpsk", f"M={M},gray={int(g)}", {"order": M, "gray_coding": g}))
    # the constructor's alias keywords are labelling options too
    for M in (4, 8):
        for g in (True, False):
            out.append(("dpsk", f"M={M},gray_coded={int(g)}", {"order": M, "gray_coded": g}))
    for bps in (1, 2, 3):
        for g in (True, False):
            out.append(("dpsk", f"bps={bps},gray_coded={int(g)}", {"bits_per_symbol": bps, "gray_coded": g}))
    out.append(("dbpsk", "-", {}))
    out.append(("dqpsk", "-", {}))
    for nz in (True, False):
        out.append(("oqpsk", f"norm={int(nz)}", {"normalize": nz}))
    for g in (True, False):
        out.append(("pi4qpsk", f"gray={int(g)}", {"gray_coded": g}))
    out.append(("identity", "-", {}))
    if with_registry:
        out += [(s, c + ",via=registry", dict(p, via="registry")) for s, c, p in list(out) if s in ("bpsk", "qpsk", "oqpsk", "pi4qpsk", "dbpsk", "dqpsk", "identity") or (s in ("psk", "qam", "pam", "dpsk") and p.get("order") in (4, 8, 16) and "gray_coded" not in p)]
    return out


KIND = {"bpsk": "memoryless", "qpsk": "memoryless", "psk": "memoryless", "qam": "memoryless", "pam": "memoryless", "identity": "memoryless",
        "dpsk": "differential", "dbpsk": "differential", "dqpsk": "differential", "oqpsk": "offset", "pi4qpsk": "alternating"}

REG = {"bpsk": "bpsk{}", "qpsk": "qpsk{}", "psk": "psk{}", "qam": "qam{}", "pam": "pam{}", "dpsk": "dpsk{}", "identity": "identity{}",
       "dbpsk": "dbpsk", "dqpsk": "dqpsk", "oqpsk": "oqpsk", "pi4qpsk": "pi4qpsk"}


def build(spec):
    """-> (modulator, demodulator) real kaira objects"""
    import kaira.modulations as M
    scheme, cfg, prm = spec
    kw = {k: v for k, v in prm.items() if k != "via"}
    dkw = dict(kw)
    if scheme == "bpsk":
        dkw = {}
    if prm.get("via") == "registry":
        R = M.ModulationRegistry
        nm, nd = REG[scheme].format("modulator"), REG[scheme].format("demodulator")
        return R.create(nm, "modulator", **kw), R.create(nd, "demodulator", **dkw)
    cls = {"bpsk": (M.BPSKModulator, M.BPSKDemodulator), "qpsk": (M.QPSKModulator, M.QPSKDemodulator), "psk": (M.PSKModulator, M.PSKDemodulator),
           "qam": (M.QAMModulator, M.QAMDemodulator), "pam": (M.PAMModulator, M.PAMDemodulator), "dpsk": (M.DPSKModulator, M.DPSKDemodulator),
           "dbpsk": (M.DBPSKModulator, M.DBPSKDemodulator), "dqpsk": (M.DQPSKModulator, M.DQPSKDemodulator), "oqpsk": (M.OQPSKModulator, M.OQPSKDemodulator),
           "pi4qpsk": (M.Pi4QPSKModulator, M.Pi4QPSKDemodulator), "identity": (M.IdentityModulator, M.IdentityDemodulator)}[scheme]
    mod, dem = cls[0](**kw), cls[1](**dkw)
    mod.eval()
    dem.eval()
    return mod, dem


def table(mod):
    """published (points, labels) as python complex / tuples; labels None if not published"""
    pts = [complex(c) for c in mod.constellation.tolist()] if hasattr(mod, "constellation") else None
    lab = None
    if hasattr(mod, "bit_patterns"):
        lab = [tuple(int(round(b)) for b in row) for row in mod.bit_patterns.tolist()]
    return pts, lab


# ----------------------------------------------------------------------------- float64 reference modem
def nearest_labels(y, pts, lab, rtol=1e-5):
    """set of labels of points within (1+rtol) of the minimum distance"""
    d = [abs(y - p) for p in pts]
    m = min(d)
    return {lab[i] for i, di in enumerate(d) if di <= m * (1 + rtol) + 1e-9}


def maxlog(y, pts, lab, j):
    """(d0^2, d1^2) : min squared distances to points whose bit j is 0 / 1"""
    d0 = min(abs(y - p) ** 2 for p, l in zip(pts, lab) if l[j] == 0)
    d1 = min(abs(y - p) ** 2 for p, l in zip(pts, lab) if l[j] == 1)
    return d0, d1


def dmin(pts):
    return min(abs(a - b) for i, a in enumerate(pts) for b in pts[:i])


def debruijn2(symbols):
    """sequence over range(symbols) containing every ordered pair once (as consecutive, cyclically closed by one repeat)"""
    k = symbols
    a = [0] * (k * 2)
    seq = []

    def db(t, p):
        if t > 2:
            if 2 % p == 0:
                seq.extend(a[1:p + 1])
        else:
            a[t] = a[t - p]
            db(t + 1, p)
            for j in range(a[t - p] + 1, k):
                a[t] = j
                db(t + 1, t)
    db(1, 1)
    return seq + seq[:1]


def sym_bits(v, b):
    return [(v >> (b - 1 - i)) & 1 for i in range(b)]


def bits_per_symbol(scheme, prm):
    if scheme in ("bpsk", "identity", "dbpsk"):
        return 1
    if scheme in ("qpsk", "oqpsk", "pi4qpsk", "dqpsk"):
        return 2
    if "bits_per_symbol" in prm:
        return prm["bits_per_symbol"]
    return int(round(math.log2(prm["order"])))
