"""Spelling equivalence (shared by several properties): one legal constructor call can be written with positional arguments, with keywords,
or with any positional prefix + keywords.  All spellings must configure the same object: the whole observable object state (bfs.canon_module:
buffers, parameters, plain attributes, children) of every spelling is compared with the all-keyword spelling.  A differential oracle with no
hand-written expectation; it decides 'the configured value is the one that is applied' for every way of writing the configuration."""
from kmc import bfs


def spellings(cls, ordered):
    """ordered: list of (name, value) following the signature order (a prefix of the positional-or-keyword parameters)"""
    names = [n for n, _ in ordered]
    vals = [v for _, v in ordered]
    yield "keywords", (lambda: cls(**dict(ordered)))
    for cut in range(len(ordered), 0, -1):
        yield ("positional" if cut == len(ordered) else f"first {cut} positional"), (lambda cut=cut: cls(*vals[:cut], **dict(zip(names[cut:], vals[cut:]))))


def registry_routes(cls):
    """-> list of (label, callable(**kwargs)) creating cls through the library's registries (every name under which cls is registered)"""
    routes = []
    try:
        from kaira.channels.registry import ChannelRegistry
        from kaira.constraints.registry import ConstraintRegistry
        from kaira.metrics.registry import MetricRegistry
        from kaira.models.registry import ModelRegistry
        from kaira.modulations.registry import ModulationRegistry
    except Exception:  # noqa: BLE001
        return routes
    for reg, attr, mk in ((ChannelRegistry, "_channels", lambda nm: (lambda **kw: ChannelRegistry.create(nm, **kw))),
                          (ConstraintRegistry, "_constraints", lambda nm: (lambda **kw: ConstraintRegistry.create(nm, **kw))),
                          (MetricRegistry, "_metrics", lambda nm: (lambda **kw: MetricRegistry.create(nm, **kw))),
                          (ModelRegistry, "_models", lambda nm: (lambda **kw: ModelRegistry.create(nm, **kw))),
                          (ModulationRegistry, "_modulators", lambda nm: (lambda **kw: ModulationRegistry.create(nm, mode="modulator", **kw))),
                          (ModulationRegistry, "_demodulators", lambda nm: (lambda **kw: ModulationRegistry.create(nm, mode="demodulator", **kw)))):
        for nm, c in sorted(getattr(reg, attr, {}).items()):
            if c is cls:
                routes.append((f"{reg.__name__}.create('{nm}')", mk(nm)))
    return routes[:3]


def _diff(a, b, path="", out=None):
    out = [] if out is None else out
    if len(out) >= 3:
        return out
    if isinstance(a, tuple) and isinstance(b, tuple) and len(a) == len(b):
        for i, (x, y) in enumerate(zip(a, b)):
            if x != y:
                tag = x[0] if isinstance(x, tuple) and x and isinstance(x[0], str) else str(i)
                _diff(x, y, f"{path}/{tag}", out)
    else:
        out.append(f"{path}: {str(a)[:80]} vs {str(b)[:80]}")
    return out


def table(pid):
    """-> list of (label, cls, ordered_args) for the classes behind property pid (built inside the worker)"""
    import torch
    import kaira.channels as K
    import kaira.constraints as KC
    import kaira.modulations as M
    T = []
    if pid == "C07":
        T += [("awgn-power", K.AWGNChannel, [("avg_noise_power", 0.3)]), ("awgn-snr", K.AWGNChannel, [("avg_noise_power", None), ("snr_db", 7.0)]),
              ("awgn-snr0", K.AWGNChannel, [("avg_noise_power", None), ("snr_db", 0.0)]), ("laplacian-snr0", K.LaplacianChannel, [("scale", None), ("avg_noise_power", None), ("snr_db", 0)]),
              ("nonlinear-snr0", K.NonlinearChannel, [("nonlinear_fn", torch.tanh), ("add_noise", True), ("avg_noise_power", None), ("snr_db", 0.0)]),
              ("laplacian-scale", K.LaplacianChannel, [("scale", 0.4)]), ("laplacian-power", K.LaplacianChannel, [("scale", None), ("avg_noise_power", 0.3)]),
              ("laplacian-snr", K.LaplacianChannel, [("scale", None), ("avg_noise_power", None), ("snr_db", 7.0)]),
              ("nonlinear", K.NonlinearChannel, [("nonlinear_fn", torch.tanh), ("add_noise", True), ("avg_noise_power", 0.3), ("snr_db", None), ("complex_mode", "polar")]),
              ("nonlinear-snr", K.NonlinearChannel, [("nonlinear_fn", torch.tanh), ("add_noise", True), ("avg_noise_power", None), ("snr_db", 5.0), ("complex_mode", "cartesian")])]
    if pid == "C13":
        T += [("flat-rician", K.FlatFadingChannel, [("fading_type", "rician"), ("coherence_time", 3), ("k_factor", 2.0), ("avg_noise_power", 0.2)]),
              ("flat-rayleigh-snr", K.FlatFadingChannel, [("fading_type", "rayleigh"), ("coherence_time", 5), ("k_factor", None), ("avg_noise_power", None), ("snr_db", 9.0)]),
              ("flat-lognormal", K.FlatFadingChannel, [("fading_type", "lognormal"), ("coherence_time", 2), ("k_factor", None), ("avg_noise_power", 0.1), ("snr_db", None), ("shadow_sigma_db", 6.0)]),
              ("rician-k0", K.RicianFadingChannel, [("k_factor", 0.0), ("coherence_time", 1), ("avg_noise_power", None), ("snr_db", 0.0)]),
              ("rician-k0-int", K.RicianFadingChannel, [("k_factor", 0), ("coherence_time", 1), ("avg_noise_power", 0.5)]),
              ("flat-rician-k0", K.FlatFadingChannel, [("fading_type", "rician"), ("coherence_time", 1), ("k_factor", 0.0), ("avg_noise_power", None), ("snr_db", 0.0)]),
              ("lognormal-sigma0", K.LogNormalFadingChannel, [("shadow_sigma_db", 0.0), ("coherence_time", 1), ("avg_noise_power", None), ("snr_db", 0)]),
              ("rayleigh", K.RayleighFadingChannel, [("coherence_time", 4), ("avg_noise_power", 0.2)]), ("rayleigh-snr", K.RayleighFadingChannel, [("coherence_time", 4), ("avg_noise_power", None), ("snr_db", 3.0)]),
              ("rician", K.RicianFadingChannel, [("k_factor", 5.0), ("coherence_time", 3), ("avg_noise_power", 0.2)]), ("rician-snr", K.RicianFadingChannel, [("k_factor", 0.5), ("coherence_time", 2), ("avg_noise_power", None), ("snr_db", 3.0)]),
              ("lognormal", K.LogNormalFadingChannel, [("shadow_sigma_db", 8.0), ("coherence_time", 7), ("avg_noise_power", 0.2)]),
              ("lognormal-snr", K.LogNormalFadingChannel, [("shadow_sigma_db", 8.0), ("coherence_time", 7), ("avg_noise_power", None), ("snr_db", 3.0)])]
    if pid == "C12":
        T += [("bsc", K.BinarySymmetricChannel, [("crossover_prob", 0.2)]), ("z", K.BinaryZChannel, [("error_prob", 0.2)]),
              ("bec", K.BinaryErasureChannel, [("erasure_prob", 0.2), ("erasure_symbol", 2)]), ("bec-0", K.BinaryErasureChannel, [("erasure_prob", 0.0), ("erasure_symbol", 0)]),
              ("bsc-0", K.BinarySymmetricChannel, [("crossover_prob", 0.0)]), ("bsc-1", K.BinarySymmetricChannel, [("crossover_prob", 1)]), ("z-0", K.BinaryZChannel, [("error_prob", 0)])]
    if pid == "C08":
        T += [("total", KC.TotalPowerConstraint, [("total_power", 2.5)]), ("average", KC.AveragePowerConstraint, [("average_power", 0.7)]),
              ("papr", KC.PAPRConstraint, [("max_papr", 4.5)]), ("peak", KC.PeakAmplitudeConstraint, [("max_amplitude", 1.5)]),
              ("per-antenna-uniform", KC.PerAntennaPowerConstraint, [("power_budget", None), ("uniform_power", 1.5)]),
              ("per-antenna-budget", KC.PerAntennaPowerConstraint, [("power_budget", torch.tensor([1.0, 2.0]))])]
    if pid in ("C05", "C06", "C14"):
        for mod, dem in ((M.PSKModulator, M.PSKDemodulator), (M.DPSKModulator, M.DPSKDemodulator)):
            for g in (True, False):
                T += [(f"{mod.__name__},gray={int(g)}", mod, [("order", 8), ("gray_coding", g)]), (f"{dem.__name__},gray={int(g)}", dem, [("order", 8), ("gray_coding", g)])]
        for mod, dem in ((M.QAMModulator, M.QAMDemodulator), (M.PAMModulator, M.PAMDemodulator)):
            for g, nz in ((True, False), (False, True), (False, False)):
                o = 16 if "QAM" in mod.__name__ else 8
                T += [(f"{mod.__name__},gray={int(g)},norm={int(nz)}", mod, [("order", o), ("gray_coding", g), ("normalize", nz)]),
                      (f"{dem.__name__},gray={int(g)},norm={int(nz)}", dem, [("order", o), ("gray_coding", g), ("normalize", nz)])]
        T += [("dpsk-bits", M.DPSKModulator, [("order", None), ("gray_coding", False), ("bits_per_symbol", 3)]),
              ("dpsk-dem-bits", M.DPSKDemodulator, [("order", None), ("gray_coding", False), ("bits_per_symbol", 3)]),
              ("bpsk-real", M.BPSKModulator, [("complex_output", False)]), ("qpsk-raw", M.QPSKModulator, [("normalize", False)]), ("qpsk-dem-raw", M.QPSKDemodulator, [("normalize", False)]),
              ("oqpsk-raw", M.OQPSKModulator, [("normalize", False)]), ("oqpsk-dem-raw", M.OQPSKDemodulator, [("normalize", False)]),
              ("pi4-binary", M.Pi4QPSKModulator, [("gray_coded", False)]), ("pi4-dem-binary", M.Pi4QPSKDemodulator, [("soft_output", False), ("gray_coded", False)])]
    if pid == "C16":
        from kaira.metrics.signal.ber import BitErrorRate
        from kaira.metrics.signal.bler import BlockErrorRate
        T += [("ber", BitErrorRate, [("threshold", 0.25)]), ("bler", BlockErrorRate, [("block_size", 4), ("threshold", 0.1), ("reduction", "sum")]),
              ("bler-none", BlockErrorRate, [("block_size", None), ("threshold", 0.0), ("reduction", "none")]),
              ("ber-0", BitErrorRate, [("threshold", 0.0)])]
    if pid in ("C10", "C02", "C11", "C15"):
        from kaira.models.fec import decoders as D
        from kaira.models.fec import encoders as E
        ldpc = E.LDPCCodeEncoder(check_matrix=torch.tensor([[1.0, 1, 0, 1, 0, 0], [0, 1, 1, 0, 1, 0], [0, 0, 0, 1, 1, 1]]))
        ham = E.HammingCodeEncoder(3)
        rmc = E.ReedMullerCodeEncoder(1, 3)
        if pid in ("C10", "C15"):
            T += [("bp", D.BeliefPropagationDecoder, [("encoder", ldpc), ("bp_iters", 7), ("arctanh", False)]),
                  ("minsum", D.MinSumLDPCDecoder, [("encoder", ldpc), ("bp_iters", 6), ("scaling_factor", 0.8), ("offset", 0.1), ("normalized", True)]),
                  ("minsum-0", D.MinSumLDPCDecoder, [("encoder", ldpc), ("bp_iters", 1), ("scaling_factor", 1.0), ("offset", 0.0), ("normalized", False)]),
                  ("rm-soft", D.ReedMullerDecoder, [("encoder", rmc), ("input_type", "soft")])]
        if pid == "C02":
            T += [("ml-lazy", D.BruteForceMLDecoder, [("encoder", ham), ("precompute_codebook", False)]), ("rm-hard", D.ReedMullerDecoder, [("encoder", rmc), ("input_type", "hard")])]
    if pid in ("C01", "C03"):
        from kaira.models.fec import encoders as E
        T += [("hamming", E.HammingCodeEncoder, [("mu", 3), ("extended", True), ("information_set", "right")]),
              ("bch", E.BCHCodeEncoder, [("mu", 4), ("delta", 5), ("information_set", "right")]),
              ("golay", E.GolayCodeEncoder, [("extended", True), ("information_set", "right")]),
              ("rs", E.ReedSolomonCodeEncoder, [("mu", 3), ("delta", 3), ("information_set", "right")]),
              ("cyclic-g", E.CyclicCodeEncoder, [("code_length", 7), ("generator_polynomial", 0b1011), ("check_polynomial", None), ("information_set", "right")]),
              ("cyclic-h", E.CyclicCodeEncoder, [("code_length", 7), ("generator_polynomial", None), ("check_polynomial", 0b10111), ("information_set", "left")]),
              ("repetition", E.RepetitionCodeEncoder, [("repetition_factor", 5)]),
              ("systematic", E.SystematicLinearBlockCodeEncoder, [("parity_submatrix", torch.tensor([[1.0, 1, 0], [0, 1, 1]])), ("information_set", "right")]),
              ("rm", E.ReedMullerCodeEncoder, [("order", 1), ("length_param", 3)]), ("spc", E.SingleParityCheckCodeEncoder, [("dimension", 4)]),
              ("generic", E.LinearBlockCodeEncoder, [("generator_matrix", torch.tensor([[1.0, 1, 0, 1], [0, 1, 1, 1]]))])]
    if pid == "C17":
        from kaira.channels.base import BaseChannel
        from kaira.constraints.base import BaseConstraint
        from kaira.models.base import BaseModel
        from kaira.models.feedback_channel import FeedbackChannelModel
        from kaira.models.generic import BranchingModel, LambdaModel, ParallelModel, SequentialModel
        from kaira.models.multiple_access_channel import MultipleAccessChannelModel
        from kaira.models.wyner_ziv import WynerZivModel

        def stub(base, tag):
            class R(base):
                def forward(self, x, *a, **k):
                    return x
            R.__name__ = R.__qualname__ = f"Stub_{tag}"
            return R()
        st = {t: stub(b, t) for t, b in (("enc", BaseModel), ("dec", BaseModel), ("gen", BaseModel), ("proc", BaseModel), ("q", BaseModel), ("syn", BaseModel), ("fwd", BaseChannel), ("fb", BaseChannel), ("con", BaseConstraint))}
        T += [("feedback", FeedbackChannelModel, [("encoder", st["enc"]), ("forward_channel", st["fwd"]), ("decoder", st["dec"]), ("feedback_generator", st["gen"]), ("feedback_channel", st["fb"]),
                                                  ("feedback_processor", st["proc"]), ("max_iterations", 3)]),
              ("mac", MultipleAccessChannelModel, [("encoders", [st["enc"], st["gen"]]), ("decoders", st["dec"]), ("channel", st["fwd"]), ("power_constraint", st["con"]), ("num_devices", 2)]),
              ("wyner-ziv", WynerZivModel, [("encoder", st["enc"]), ("channel", st["fwd"]), ("decoder", st["dec"]), ("correlation_model", None), ("quantizer", st["q"]), ("syndrome_generator", st["syn"]), ("constraint", st["con"])]),
              ("sequential", SequentialModel, [("steps", [st["enc"], st["dec"]])]),
              ("parallel", ParallelModel, [("max_workers", 2), ("steps", None), ("branches", None), ("aggregator", None)]),
              ("lambda", LambdaModel, [("func", abs), ("name", "absolute")])]
    return T


def run(pid, res, component="spelling"):
    import inspect
    for label, cls, ordered in table(pid):
        # the table must name real parameters (a renamed parameter leaves nothing to compare); their KIND is not checked: a parameter that turned
        # keyword-only makes the positional spelling either an error (allowed) or a silently different object (the violation looked for)
        sig = {p.name for p in list(inspect.signature(cls.__init__).parameters.values())[1:]}
        if not {n for n, _ in ordered} <= sig:
            res.rejected += 1
            continue
        ref = None
        routes = [(f"{rn} with keywords", (lambda rf=rf: rf(**dict(ordered)))) for rn, rf in registry_routes(cls)]
        for name, mk in list(spellings(cls, ordered)) + routes:
            try:
                obj = mk()
            except Exception as e:  # noqa: BLE001
                if name == "keywords":
                    res.viol(component, label, "raises", f"{cls.__name__} written with {name}: {type(e).__name__}: {str(e)[:160]}")
                    break
                res.rejected += 1          # declining a positional spelling is allowed
                continue
            c = tuple(it for it in bfs.canon_module(obj) if not (isinstance(it, tuple) and isinstance(it[0], str) and ("args" in it[0] or "kwargs" in it[0])))   # a record of HOW the call was written is not configuration
            res.ev(1, nontrivial=1, transitions=1)
            if ref is None:
                ref = c
            elif c != ref:
                res.viol(component, label, "spelling", f"{cls.__name__}({', '.join(f'{n}={v if not hasattr(v, 'shape') else 'tensor'}' for n, v in ordered)}) written with {name} is configured differently from the all-keyword call: "
                         + "; ".join(_diff(ref, c)), {"spelling": name})
    res.sample({"spelling_classes": len(table(pid))})
