"""Imported once in the forkserver so that workers start with torch + kaira loaded.

No torch *operation* is executed here (OpenMP state would not survive the fork).
KAIRA_SRC=<dir> puts another source tree first on sys.path (used only by the
mutation-demonstration scripts, never by a registered command).
"""
import os
import sys
import warnings

warnings.filterwarnings("ignore")
os.environ.setdefault("OMP_NUM_THREADS", "1")
os.environ.setdefault("MKL_NUM_THREADS", "1")
_src = os.environ.get("KAIRA_SRC")
if _src:
    sys.path.insert(0, _src)

import torch  # noqa: E402
import kaira  # noqa: E402,F401
import kaira.models.fec.encoders  # noqa: E402,F401
import kaira.models.fec.decoders  # noqa: E402,F401
import kaira.modulations  # noqa: E402,F401
import kaira.channels  # noqa: E402,F401
import kaira.constraints  # noqa: E402,F401
import kaira.metrics  # noqa: E402,F401

if _src:
    assert os.path.realpath(kaira.__file__).startswith(os.path.realpath(_src)), kaira.__file__
