"""E4 – RNG seam: every torch random primitive is answered by the harness for the duration of a case (DESIGN §2.4).

Policies
  Alphabet(answers)  : the k-th requested element (over all requests, in request order) gets answers[k]
  Quantile()         : a request of N elements is answered with the N mid-point quantiles of the primitive's law in a
                       per-call permutation (identity, reversal, odd stride, ...)
  Frozen(seed)       : every request is answered from a private torch.Generator re-seeded per request index (fixed realisation)
The seam logs (primitive, shape) of every request; `requests` lets an oracle see how many draws a call consumed.
"""
import math

import torch

_PATCH_FUNCS = ["rand", "rand_like", "randn", "randn_like", "normal", "bernoulli", "poisson", "randint"]
_PATCH_METHODS = ["uniform_", "normal_", "exponential_", "bernoulli_", "random_"]


class Policy:
    def __init__(self):
        self.requests = []          # (primitive, numel)
        self.served = 0
        self.bypassed = 0           # requests that named their own torch.Generator: passed through to torch unanswered

    def draw(self, law, shape, dtype, device):
        raise NotImplementedError

    def _log(self, law, shape):
        n = 1
        for s in shape:
            n *= int(s)
        self.requests.append((law, n))
        return n


class Alphabet(Policy):
    """law-agnostic: values are served verbatim (the oracle chooses them in the primitive's range)"""

    def __init__(self, answers, pad=None):
        super().__init__()
        self.answers = list(answers)
        self.pad = pad
        self.overrun = 0

    def draw(self, law, shape, dtype, device):
        n = self._log(law, shape)
        vals = self.answers[self.served:self.served + n]
        if len(vals) < n:
            self.overrun += n - len(vals)
            fill = self.pad if self.pad is not None else (self.answers[-1] if self.answers else 0.5)
            vals = vals + [fill] * (n - len(vals))
        self.served += n
        return torch.tensor(vals, dtype=torch.float64).to(dtype).reshape(tuple(shape)).to(device)


def _perm(n, call):
    idx = torch.arange(n)
    c = call % 4
    if c == 0:
        return idx
    if c == 1:
        return torch.flip(idx, [0])
    stride = {2: 7919, 3: 104729}[c]
    while math.gcd(stride, n) != 1:
        stride += 2
    return (idx * stride + (n // 3)) % n


class Quantile(Policy):
    def __init__(self):
        super().__init__()
        self.calls = 0

    def _grid(self, law, n):
        p = (torch.arange(n, dtype=torch.float64) + 0.5) / n
        if law == "normal":
            return torch.special.ndtri(p)
        if law == "uniform":
            return p
        if law == "exponential":
            return -torch.log1p(-p)
        raise NotImplementedError(law)

    def draw(self, law, shape, dtype, device):
        n = self._log(law, shape)
        shape = tuple(int(s_) for s_ in shape)
        last = shape[-1] if shape else 1
        if len(shape) >= 2 and last >= 1024:   # (shorter rows: the grid error of a single row would exceed the tolerance)
            # every row (slice along the last dimension) gets its own complete quantile grid in its own permutation, so that
            # per-row averages are exact quadratures too
            g = self._grid(law, last)
            rows = n // last
            v = torch.stack([g[_perm(last, self.calls + r)] for r in range(rows)]).reshape(shape)
        else:
            v = self._grid(law, n)[_perm(n, self.calls)].reshape(shape)
        self.calls += 1
        self.served += n
        return v.to(dtype).to(device)


class Frozen(Policy):
    """the same fixed realisation for the i-th request of every run (frozen noise, for gradient checks)"""

    def __init__(self, seed=1234):
        super().__init__()
        self.seed = seed
        self.calls = 0

    def draw(self, law, shape, dtype, device):
        self._log(law, shape)
        g = torch.Generator().manual_seed(self.seed + 7919 * self.calls)
        self.calls += 1
        if law == "normal":
            v = _ORIG["randn"](tuple(shape), generator=g, dtype=torch.float64)
        elif law == "uniform":
            v = _ORIG["rand"](tuple(shape), generator=g, dtype=torch.float64)
        elif law == "exponential":
            v = -torch.log1p(-_ORIG["rand"](tuple(shape), generator=g, dtype=torch.float64))
        else:
            raise NotImplementedError(law)
        return v.to(dtype).to(device)


_ORIG = {name: getattr(torch, name) for name in _PATCH_FUNCS}
_ORIG_M = {name: getattr(torch.Tensor, name) for name in _PATCH_METHODS}


def _shape_of(args, kwargs):
    if "size" in kwargs:
        return tuple(kwargs["size"])
    if len(args) == 1 and isinstance(args[0], (tuple, list, torch.Size)):
        return tuple(args[0])
    return tuple(int(a) for a in args)


class Seam:
    """context manager installing the patches (module functions and Tensor in-place samplers)"""

    def __init__(self, policy):
        self.p = policy

    def __enter__(self):
        p = self.p

        def rand(*a, **k):
            if k.get("generator") is not None:
                p.bypassed += 1
                return _ORIG["rand"](*a, **k)
            return p.draw("uniform", _shape_of(a, k), k.get("dtype") or torch.get_default_dtype(), k.get("device") or "cpu")

        def randn(*a, **k):
            if k.get("generator") is not None:
                p.bypassed += 1
                return _ORIG["randn"](*a, **k)
            return p.draw("normal", _shape_of(a, k), k.get("dtype") or torch.get_default_dtype(), k.get("device") or "cpu")

        def rand_like(t, **k):
            return p.draw("uniform", t.shape, k.get("dtype") or t.dtype, t.device)

        def randn_like(t, **k):
            dt = k.get("dtype") or t.dtype
            if dt.is_complex:
                rdt = torch.float64 if dt == torch.complex128 else torch.float32
                re = p.draw("normal", t.shape, rdt, t.device)
                im = p.draw("normal", t.shape, rdt, t.device)
                return torch.complex(re, im) / math.sqrt(2.0)
            return p.draw("normal", t.shape, dt, t.device)

        def normal(mean=0.0, std=1.0, size=None, **k):
            if k.get("generator") is not None:
                p.bypassed += 1
                return _ORIG["normal"](mean, std, size, **k) if size is not None else _ORIG["normal"](mean, std, **k)
            if isinstance(mean, torch.Tensor) or isinstance(std, torch.Tensor):
                ref = mean if isinstance(mean, torch.Tensor) else std
                shape = torch.broadcast_shapes(mean.shape if isinstance(mean, torch.Tensor) else (), std.shape if isinstance(std, torch.Tensor) else ())
                z = p.draw("normal", shape, ref.dtype, ref.device)
            else:
                z = p.draw("normal", tuple(size), k.get("dtype") or torch.get_default_dtype(), k.get("device") or "cpu")
            return mean + std * z

        def bernoulli(t, p_=None, **k):
            if k.get("generator") is not None:
                p.bypassed += 1
                return _ORIG["bernoulli"](t, **k) if p_ is None else _ORIG["bernoulli"](t, p_, **k)
            u = p.draw("uniform", t.shape, t.dtype if t.dtype.is_floating_point else torch.float32, t.device)
            prob = t if p_ is None else p_
            return (u < prob).to(t.dtype)

        def poisson(rate, **k):
            # inverse-CDF sampling from a uniform answer (exact for the small rates used by the harness)
            u = p.draw("uniform", rate.shape, torch.float64, rate.device)
            out = torch.zeros_like(rate, dtype=torch.float64)
            r = rate.to(torch.float64)
            cdf = torch.exp(-r)
            term = cdf.clone()
            for kk in range(1, 200):
                more = u >= cdf
                if not bool(more.any()):
                    break
                out = out + more.to(torch.float64)
                term = term * r / kk
                cdf = cdf + term
            return out.to(rate.dtype)

        def randint(*a, **k):
            if k.get("generator") is not None:
                p.bypassed += 1
                return _ORIG["randint"](*a, **k)
            if len(a) >= 3:
                low, high, size = a[0], a[1], a[2]
            elif len(a) == 2:
                low, high, size = 0, a[0], a[1]
            else:
                low, high, size = k.get("low", 0), k["high"], k["size"]
            u = p.draw("uniform", tuple(size), torch.float64, k.get("device") or "cpu")
            return (low + torch.floor(u * (high - low))).to(k.get("dtype") or torch.int64)

        def uniform_(self_, a=0.0, b=1.0, **k):
            if k.get("generator") is not None:
                p.bypassed += 1
                return _ORIG_M["uniform_"](self_, a, b, **k)
            u = p.draw("uniform", self_.shape, self_.dtype, self_.device)
            return self_.copy_(a + (b - a) * u)

        def normal_(self_, mean=0.0, std=1.0, **k):
            if k.get("generator") is not None:
                p.bypassed += 1
                return _ORIG_M["normal_"](self_, mean, std, **k)
            z = p.draw("normal", self_.shape, self_.dtype, self_.device)
            return self_.copy_(mean + std * z)

        def exponential_(self_, lambd=1.0, **k):
            e = p.draw("exponential", self_.shape, self_.dtype, self_.device)
            return self_.copy_(e / lambd)

        def bernoulli_(self_, p_=0.5, **k):
            u = p.draw("uniform", self_.shape, self_.dtype if self_.dtype.is_floating_point else torch.float32, self_.device)
            return self_.copy_((u < p_).to(self_.dtype))

        def random_(self_, *a, **k):
            lo, hi = (0, a[0]) if len(a) == 1 else (a[0], a[1]) if len(a) == 2 else (0, 2)
            u = p.draw("uniform", self_.shape, torch.float64, self_.device)
            return self_.copy_((lo + torch.floor(u * (hi - lo))).to(self_.dtype))

        for name, fn in dict(rand=rand, randn=randn, rand_like=rand_like, randn_like=randn_like, normal=normal, bernoulli=bernoulli,
                             poisson=poisson, randint=randint).items():
            setattr(torch, name, fn)
        for name, fn in dict(uniform_=uniform_, normal_=normal_, exponential_=exponential_, bernoulli_=bernoulli_, random_=random_).items():
            setattr(torch.Tensor, name, fn)
        return p

    def __exit__(self, *exc):
        for name, fn in _ORIG.items():
            setattr(torch, name, fn)
        for name, fn in _ORIG_M.items():
            setattr(torch.Tensor, name, fn)
        return False
