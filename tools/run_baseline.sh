#!/bin/bash
# run the repository's baseline test suite on a commit (default HEAD) in a scratch worktree and compare with BASELINE.json
set -u
C=${1:-HEAD}
SHA=$(git -C /repo rev-parse --short "$C")
WT=/tmp/wt_base_$SHA
git -C /repo worktree remove --force "$WT" 2>/dev/null
git -C /repo worktree add -q --detach "$WT" "$C" || exit 2
cd "$WT"
KAIRA_VERIF= /venv/bin/python -m pytest -ra -q -p no:cacheprovider --timeout=900 --continue-on-collection-errors --junitxml=/tmp/base_$SHA.xml > /tmp/base_$SHA.log 2>&1
cd /
/venv/bin/python - "$SHA" <<'P'
import json, sys, xml.etree.ElementTree as ET
sha = sys.argv[1]
base = json.load(open('/root/.vp/BASELINE.json'))
stable = set(base['stable_pass'])
root = ET.parse(f'/tmp/base_{sha}.xml').getroot()
passed = set(); failed = set()
for tc in root.iter('testcase'):
    name = f"{tc.get('classname')}::{tc.get('name')}"
    bad = any(ch.tag in ('failure', 'error') for ch in tc)
    skip = any(ch.tag == 'skipped' for ch in tc)
    if bad: failed.add(name)
    elif not skip: passed.add(name)
missing = sorted(stable - passed)
print(f"commit {sha}: passed={len(passed)} failed={len(failed)} stable_pass={len(stable)} stable_now_not_passing={len(missing)}")
for m in missing[:40]: print("  REGRESSION", m)
P
git -C /repo worktree remove --force "$WT"
