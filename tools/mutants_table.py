#!/usr/bin/env python3
"""Regenerates DESIGN.md §12 (mutation log) from seeded/*/{meta,result}.json and tools/mutant_notes.json."""
import glob
import json
import os
import re

ROOT = os.path.dirname(os.path.dirname(os.path.abspath(__file__)))
notes = json.load(open(os.path.join(ROOT, "tools", "mutant_notes.json"))) if os.path.exists(os.path.join(ROOT, "tools", "mutant_notes.json")) else {}
rows = []
for d in sorted(glob.glob(os.path.join(ROOT, "seeded", "*"))):
    name = os.path.basename(d)
    try:
        m = json.load(open(os.path.join(d, "meta.json")))
        r = json.load(open(os.path.join(d, "result.json")))
    except Exception:
        continue
    caught = ", ".join(r.get("caught_by", [])) or "**missed**"
    first = ""
    for c in r.get("caught_by", []):
        k = r["checks"][c]["first_keys"]
        if k:
            mm = re.match(r"key=([^ ]+)", k[0])
            first = mm.group(1) if mm else ""
            break
    conf = "demo fails with / passes without: %s; tests (%s): %s" % ("yes" if r.get("demo_ok") else "NO", r.get("tests", {}).get("paths", "-"), "pass" if r.get("tests_ok") else "FAIL")
    rows.append(f"| {name} | {m['summary'][:170].replace('|', '/')} | {m['needs'][:150].replace('|', '/')} | {caught} | `{first[:90]}` | {notes.get(name, '')} |")
    m["confirmed"] = {"demo_ok": r.get("demo_ok"), "tests_ok": r.get("tests_ok"), "tests": r.get("tests"), "caught_by": r.get("caught_by"), "what_i_ran": "tools/eval_mutant.py seeded/%s --tests auto --checks own (scratch worktree of /repo HEAD, patch applied, demo on clean and patched tree, pytest on the touched packages compared with BASELINE stable_pass, quick check with KAIRA_SRC)" % name}
    json.dump(m, open(os.path.join(d, "meta.json"), "w"), indent=1)
table = "| seeded change | what it changes | what it needs to manifest | caught by (quick) | first violation key | note |\n|---|---|---|---|---|---|\n" + "\n".join(rows)
p = os.path.join(ROOT, "DESIGN.md")
s = open(p).read()
head = "## 12. Mutation log"
body = f"""{head} – which check catches which seeded change

Seeded changes were written by independent sub-agents that saw only one property's text and a scratch worktree of /repo (nothing
from /verif). Each was confirmed by `tools/eval_mutant.py` in a fresh scratch worktree: the demonstration passes on the clean tree
and fails with the patch, the repository's tests of the touched packages still pass (compared with BASELINE `stable_pass`), and the
property's quick check is run against the patched tree (`KAIRA_SRC`). "note" says what had to be strengthened before the check
caught it; every strengthening was re-run on the unchanged tree (still silent).

{table}

---------------------------------------------------------------------------------------

"""
if head in s:
    i = s.index(head)
    j = s.index("## 10. Risks and limits")
    s = s[:i] + body + s[j:]
else:
    j = s.index("## 10. Risks and limits")
    s = s[:j] + body + s[j:]
open(p, "w").write(s)
print(len(rows), "rows")
