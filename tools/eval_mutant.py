#!/usr/bin/env python3
"""Confirm and evaluate one seeded change.

  tools/eval_mutant.py <dir with patch.diff, demo.py, meta.json> [--tests full|none|<pytest paths>] [--checks all|C01,C04] [--tier quick]

Steps (everything in a scratch worktree of /repo under /tmp, removed afterwards; /repo itself is never touched):
  1. demo.py on the clean tree must PASS (exit 0); with the patch applied it must FAIL (exit 1)
  2. the repository's tests (selected paths or the full baseline) must still pass with the patch
  3. the checks are run against the patched tree (KAIRA_SRC) and must print VIOLATION / exit 1
Writes <dir>/result.json.
"""
import argparse
import json
import os
import subprocess
import sys
import time
import xml.etree.ElementTree as ET

ROOT = os.path.dirname(os.path.dirname(os.path.abspath(__file__)))


def sh(cmd, cwd=None, env=None, timeout=3600):
    r = subprocess.run(cmd, shell=True, cwd=cwd, env=env, capture_output=True, text=True, timeout=timeout)
    return r.returncode, r.stdout + r.stderr


def main():
    ap = argparse.ArgumentParser()
    ap.add_argument("dir")
    ap.add_argument("--tests", default="auto")
    ap.add_argument("--checks", default="own")
    ap.add_argument("--tier", default="quick")
    a = ap.parse_args()
    d = os.path.abspath(a.dir)
    meta = json.load(open(os.path.join(d, "meta.json")))
    pid = meta["property"]
    name = os.path.basename(d.rstrip("/"))
    wt = f"/tmp/ev_{name}_{os.getpid()}"
    res = {"mutant": name, "property": pid, "when": time.strftime("%Y-%m-%d %H:%M:%S")}
    if a.tests == "none" and os.path.exists(os.path.join(d, "result.json")):
        old = json.load(open(os.path.join(d, "result.json")))      # keep the test confirmation of an earlier full evaluation
        for k in ("tests", "tests_ok"):
            if k in old:
                res[k] = old[k]
    sh(f"git -C /repo worktree remove --force {wt}")
    rc, out = sh(f"git -C /repo worktree add -q --detach {wt} HEAD")
    assert rc == 0, out
    try:
        env = dict(os.environ, PYTHONHASHSEED="0", PYTHONWARNINGS="ignore")
        os.makedirs(os.path.join(wt, "_mutant"), exist_ok=True)
        sh(f"cp {d}/demo.py {wt}/_mutant/demo.py")
        rc0, out0 = sh("/venv/bin/python _mutant/demo.py", cwd=wt, env=env, timeout=1200)
        res["demo_clean_rc"] = rc0
        rc, out = sh(f"git apply {d}/patch.diff", cwd=wt)
        res["patch_applies"] = rc == 0
        if rc != 0:
            res["error"] = out[-500:]
            return res
        rc1, out1 = sh("/venv/bin/python _mutant/demo.py", cwd=wt, env=env, timeout=1200)
        res["demo_mutant_rc"] = rc1
        res["demo_ok"] = (rc0 == 0 and rc1 == 1)
        res["demo_tail"] = out1[-300:]
        # tests
        if a.tests != "none":
            if a.tests == "full":
                paths = ""
            elif a.tests == "auto":
                files = meta.get("files", [])
                m = {"kaira/models/fec": "tests/models/fec", "kaira/modulations": "tests/modulations", "kaira/channels": "tests/channels", "kaira/constraints": "tests/constraints",
                     "kaira/metrics": "tests/metrics", "kaira/models/binary": "tests/models/binary", "kaira/utils": "tests/utils", "kaira/benchmarks": "tests/benchmarks", "kaira/models/image": "tests/models/image"}
                sel = sorted({v for f in files for k, v in m.items() if f.startswith(k)} | ({"tests/models"} if any(f.startswith("kaira/models/") and not f.startswith(("kaira/models/fec", "kaira/models/binary", "kaira/models/image")) for f in files) else set()))
                paths = " ".join(p for p in sel if os.path.exists(os.path.join(wt, p))) or "tests/models"
            else:
                paths = a.tests
            junit = f"/tmp/ev_{name}.xml"
            rc, out = sh(f"KAIRA_VERIF= /venv/bin/python -m pytest -q -p no:cacheprovider --timeout=900 --continue-on-collection-errors --junitxml={junit} {paths}", cwd=wt, env=env, timeout=3000)
            base = set(json.load(open("/root/.vp/BASELINE.json"))["stable_pass"])
            failed = []
            ran = 0
            for tc in ET.parse(junit).getroot().iter("testcase"):
                nm = f"{tc.get('classname')}::{tc.get('name')}"
                ran += 1
                if any(ch.tag in ("failure", "error") for ch in tc) and nm in base:
                    failed.append(nm)
            res["tests"] = {"paths": paths or "FULL", "ran": ran, "stable_tests_failing": failed[:10]}
            res["tests_ok"] = not failed
        # checks
        checks = [pid] if a.checks == "own" else [f"C{i:02d}" for i in range(1, 21)] if a.checks == "all" else a.checks.split(",")
        res["checks"] = {}
        for c in checks:
            t0 = time.time()
            evd = f"/tmp/ev_evidence_{name}"
            os.makedirs(evd, exist_ok=True)
            rc, out = sh(f"KAIRA_SRC={wt} ./check {c} --tier {a.tier}", cwd=ROOT, env=dict(env, KAIRA_SRC=wt, VERIF_EVIDENCE_DIR=evd), timeout=7200)
            sh(f"rm -rf {evd}")
            viol = [l for l in out.splitlines() if l.startswith("VIOLATION")]
            keys = [l.strip() for l in out.splitlines() if l.startswith("  key=")]
            res["checks"][c] = {"rc": rc, "violation_lines": len(viol), "first_keys": [k[:260] for k in keys[:3]], "wall": round(time.time() - t0, 1)}
        res["caught_by"] = [c for c, v in res["checks"].items() if v["rc"] == 1 and v["violation_lines"] > 0]
        return res
    finally:
        sh(f"git -C /repo worktree remove --force {wt}")
        with open(os.path.join(d, "result.json"), "w") as f:
            json.dump(res, f, indent=1)
        print(json.dumps(res, indent=1))


if __name__ == "__main__":
    main()
