#!/usr/bin/env python3
"""Refreshes the DESIGN.md §11 table: appends the additions of mutation waves 8-12 to the 'what is enumerated' column (once) and rewrites the
timing column from two run logs of tools/run_all.sh (quick, thorough).   tools/design_rows.py <quick.log> <thorough.log>"""
import os
import re
import sys

ROOT = os.path.dirname(os.path.dirname(os.path.abspath(__file__)))
ADD = {
    "C01": "mixing sequence of n=72 LDPC matrices agreeing on their first 64 columns; encoders restored from another encoder's state_dict; lengths 127…257 (repetition, SPC, RM m=7,8, Hamming μ=7,8) with linear word sets; zero-padded generic codes; quick also BCH over GF(32)/GF(64) and Hamming μ=5,6",
    "C02": "spliced received words; brute-force ML on low-dimensional BCH codes of any length; generators with unused / repeated coordinates never thinned + a zero-padded family (all 2ⁿ words); Berlekamp–Massey on BCH codes of any dimension, GF(32)/GF(64) with δ≤11 in the quick tier",
    "C03": "cyclic lengths 17 and 21 (min(k,n−k)≤9) in the quick tier; named standard codes advertise (n,k) in their name; `factories`: the code behind a name is the same before / after overriding calls and the other names",
    "C04": "`many-blocks`: 5000 / 4500 / 4600 blocks in three layouts through 10 encoders; restored-from-state_dict encoders; the long and zero-padded catalogue entries; quick also GF(32)/GF(64) BCH",
    "C05": "12 and 35 sequences in several batch dimensions ((3,4,L), (2,2,3,L), (5,7,L))",
    "C06": "long hard-decision calls of exactly 3·2¹³ and 3·2¹² points; exact tie points and probes 1e-4 / 1e-5 dmin from every boundary; received points and noise-variance tensors compared with clones after every soft call",
    "C07": "tail / head bursts at length N−37; signals with exact zeros (on-off, burst, sparse); ONE channel object serving real / complex signals, 3 shapes and 3 powers in turn; the extreme answers of the generators (uniform 0, 2⁻²⁴, 1−2⁻²⁴, normal ±5.4σ) give finite noise",
    "C08": "chains of 4…24 stages grown by add_constraint; factories independent of each other; peak limits 0.01 … 37 (dyadic and not)",
    "C09": "exhaustive ML decoder on 2¹³ / 2¹⁶ codewords; long BCH links (μ=5..8) and long RM links RM(0..1,6..8) with exactly t flips over BPSK; π/4-QPSK chains: 8 pairs × eval/train × 45 transmissions through the same modem objects; every soft link also at noise variance 50 and 1e-3; min-sum pairs with normalized / scaling+offset options",
    "C10": "one call of 5003 rows with row-dependent magnitudes; magnitudes 1e-30…1e20; normalized / scaling / offset option sets; circulant (3,6)- and (5,10)-regular graphs (cycles, n=12/24) at 10 / 60 / 200 [400] iterations",
    "C11": "frozen × interleave combinations at N=32…256 in the quick tier; SC and BP on every user-supplied mask (N≤8); SC rule at N=256..1024 with dyadic magnitudes; mask overwritten by the caller after construction",
    "C12": "fewer draws than eligible symbols is a violation; module casts / eval / deepcopy keep the law; uint8 / int8 / int32 inputs",
    "C13": "batch of 11; noise configured by power (4 powers × patterns × shapes × scales); supplied signal / csi tensors compared with clones; one input of 2²⁴+4099 samples",
    "C14": "orders PAM 128…512, PSK 128 / 256; `table-stable`: fresh modulator and demodulator re-read after carrying data, returned symbols edited in place, index inputs; array Gray forms on 234 structured integers to 2⁶⁰",
    "C15": "long frames of seeded random bits (5003 symbols BPSK / QPSK, 403 others); every option set of BP / min-sum consumers × 9 magnitudes; decisions and LLR arguments of a history held and re-read; whole batches (word + complement, all 2^L words) through every stateless consumer",
    "C16": "every pair of ≤4 bits in every layout incl. one complex symbol as 0-d / (1,) / (1,1): one-shot = exact = streaming",
    "C17": "BranchingModel histories (add / remove / get / default / default aliasing a branch model / run) BFS depth 5 [7] against an ordered-dictionary model; state key = canonical state + set of operations applied; feedback round count independent of the data (transparent / zero / lossless-from-round-2 links)",
    "C18": "cross-field histories for all ordered pairs m1, m2 ≤ 8; field-level accessors (minimal-polynomial table, element list, zero / one, conversions, equality / hash); elements from two FiniteBifield(m) calls combine, m=1..16",
    "C19": "300-element inputs; seam-free frozen-noise pass; compressing (sign-changing) and saturating nonlinear characteristics in 3 complex modes; fading with coherence time 5 / 100 (not dividing / exceeding the word); 0 dB among the SNR values",
    "C20": "1400-symbol tie-carrying members for hard demodulation; early-stopping polar BP members (both regimes) with noisy words that converge early / late / never; rows that are proper fractions of a block must be declined",
}
DEV = {
    "C09": "differential / offset modems excluded (the pipeline has no reference-symbol stage); π/4-QPSK included; BM fault clauses on 14 structured messages in quick; RM(·,6..8) links go beyond the m≤5 the property quantifies over",
    "C15": "Otsu excluded; adaptive consumers only where the tensor as a whole is decidable (constant magnitude, both classes: single rows, or batches of words with their complements)",
    "C02": "RS-style not paired with BM (open C03 finding); `errors-consistent` only inside a decoder's capability; brute-force ML beyond n=24 only for BCH codes with k≤8 [10]",
    "C19": "widths (32,16) for the gradient-reach clause; PAPR finite differences with step 1e-7; 300-element inputs not in SNR mode (the library rounds the signal-dependent noise scale to float32)",
}
MARK = " **Since wave 8:** "
TAIL = "; `lifecycle` case (§11 intro)"


def walls(path):
    out = {}
    if not path or not os.path.exists(path):
        return out
    for line in open(path):
        m = re.match(r"(C\d\d) tier=\w+ seed=\d+ rc=(\d+) wall=(\d+)s", line)
        if m:
            out[m.group(1)] = (int(m.group(3)), int(m.group(2)))
    return out


def fmt(sec):
    return f"{sec} s" if sec < 120 else f"{sec / 60:.1f} min".replace(".0 min", " min")


def main():
    q = walls(sys.argv[1] if len(sys.argv) > 1 else None)
    t = walls(sys.argv[2] if len(sys.argv) > 2 else None)
    p = os.path.join(ROOT, "DESIGN.md")
    lines = open(p).read().split("\n")
    for i, line in enumerate(lines):
        m = re.match(r"\| (C\d\d) \| (E[^|]*) \| (.*) \| ([^|]*) \| ([^|]*) \|$", line)
        if not m:
            continue
        pid, eng, what, timing, dev = m.groups()
        if pid in ADD:
            what = what.split(MARK)[0] + MARK + ADD[pid] + TAIL
        elif TAIL not in what:
            what = what + TAIL
        if pid in q and pid in t:
            timing = f"{fmt(q[pid][0])} [{fmt(t[pid][0])}]"
        elif pid in q:
            timing = re.sub(r"^[^\[]*", fmt(q[pid][0]) + " ", timing)
        elif pid in t:
            timing = re.sub(r"\[[^\]]*\]", "[" + fmt(t[pid][0]) + "]", timing)
        if pid in DEV:
            dev = DEV[pid]
        lines[i] = f"| {pid} | {eng} | {what} | {timing} | {dev} |"
    open(p, "w").write("\n".join(lines))
    tq, tt = sum(v[0] for v in q.values()), sum(v[0] for v in t.values())
    print(f"quick total {tq} s ({len(q)} checks), thorough total {tt} s ({len(t)} checks)")


if __name__ == "__main__":
    main()
