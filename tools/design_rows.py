#!/usr/bin/env python3
"""Refreshes the DESIGN.md §11 table: appends the additions of mutation waves 8-12 to the 'what is enumerated' column (once) and rewrites the
timing column from two run logs of tools/run_all.sh (quick, thorough).   tools/design_rows.py <quick.log> <thorough.log>"""
import os
import re
import sys

ROOT = os.path.dirname(os.path.dirname(os.path.abspath(__file__)))
ADD = {
    "C01": "encoders restored from another encoder's state_dict; lengths 127…257 (repetition, SPC, RM m=7,8, Hamming μ=7,8) with linear word sets; zero-padded generic codes; quick also BCH over GF(32)/GF(64) and Hamming μ=5,6",
    "C02": "generators with unused / repeated coordinates never thinned + a zero-padded family (all 2ⁿ words); Berlekamp–Massey on BCH codes of any dimension, GF(32)/GF(64) with δ≤11 in the quick tier",
    "C03": "named standard codes advertise (n,k) in their name; `factories`: the code behind a name is the same before / after overriding calls and the other names",
    "C04": "restored-from-state_dict encoders; the long and zero-padded catalogue entries; quick also GF(32)/GF(64) BCH",
    "C06": "exact tie points and probes 1e-4 / 1e-5 dmin from every boundary; received points and noise-variance tensors compared with clones after every soft call",
    "C07": "signals with exact zeros (on-off, burst, sparse); ONE channel object serving real / complex signals, 3 shapes and 3 powers in turn; the extreme answers of the generators (uniform 0, 2⁻²⁴, 1−2⁻²⁴, normal ±5.4σ) give finite noise",
    "C08": "factories independent of each other; peak limits 0.01 … 37 (dyadic and not)",
    "C09": "long BCH links (μ=5..8) and long RM links RM(0..1,6..8) with exactly t flips over BPSK; π/4-QPSK chains: 8 pairs × eval/train × 45 transmissions through the same modem objects; every soft link also at noise variance 50 and 1e-3; min-sum pairs with normalized / scaling+offset options",
    "C10": "magnitudes 1e-30…1e20; normalized / scaling / offset option sets; circulant (3,6)- and (5,10)-regular graphs (cycles, n=12/24) at 10 / 60 / 200 [400] iterations",
    "C11": "SC and BP on every user-supplied mask (N≤8); SC rule at N=256..1024 with dyadic magnitudes; mask overwritten by the caller after construction",
    "C12": "module casts / eval / deepcopy keep the law; uint8 / int8 / int32 inputs",
    "C13": "noise configured by power (4 powers × patterns × shapes × scales); supplied signal / csi tensors compared with clones; one input of 2²⁴+4099 samples",
    "C14": "`table-stable`: fresh modulator and demodulator re-read after carrying data, returned symbols edited in place, index inputs; array Gray forms on 234 structured integers to 2⁶⁰",
    "C15": "every option set of BP / min-sum consumers × 9 magnitudes; decisions and LLR arguments of a history held and re-read; whole batches (word + complement, all 2^L words) through every stateless consumer",
    "C16": "every pair of ≤4 bits in every layout incl. one complex symbol as 0-d / (1,) / (1,1): one-shot = exact = streaming",
    "C17": "BranchingModel histories (add / remove / get / default / run) BFS depth 5 [7] against an ordered-dictionary model; state key = canonical state + set of operations applied; feedback round count independent of the data (transparent / zero / lossless-from-round-2 links)",
    "C18": "field-level accessors (minimal-polynomial table, element list, zero / one, conversions, equality / hash); elements from two FiniteBifield(m) calls combine, m=1..16",
    "C19": "compressing (sign-changing) and saturating nonlinear characteristics in 3 complex modes; fading with coherence time 5 / 100 (not dividing / exceeding the word); 0 dB among the SNR values",
    "C20": "early-stopping polar BP members (both regimes) with noisy words that converge early / late / never; rows that are proper fractions of a block must be declined",
}
MARK = " **Since wave 8:** "
TAIL = "; `lifecycle` case (§11 intro)"


def walls(path):
    out = {}
    if not path or not os.path.exists(path):
        return out
    for line in open(path):
        m = re.match(r"(C\d\d) tier=\w+ seed=\d+ rc=(\d+) wall=(\d+)s", line)
        if m:
            out[m.group(1)] = (int(m.group(3)), int(m.group(2)))
    return out


def fmt(sec):
    return f"{sec} s" if sec < 120 else f"{sec / 60:.1f} min".replace(".0 min", " min")


def main():
    q = walls(sys.argv[1] if len(sys.argv) > 1 else None)
    t = walls(sys.argv[2] if len(sys.argv) > 2 else None)
    p = os.path.join(ROOT, "DESIGN.md")
    lines = open(p).read().split("\n")
    for i, line in enumerate(lines):
        m = re.match(r"\| (C\d\d) \| (E[^|]*) \| (.*) \| ([^|]*) \| ([^|]*) \|$", line)
        if not m:
            continue
        pid, eng, what, timing, dev = m.groups()
        if pid in ADD:
            what = what.split(MARK)[0] + MARK + ADD[pid] + TAIL
        elif TAIL not in what:
            what = what + TAIL
        if pid in q and pid in t:
            timing = f"{fmt(q[pid][0])} [{fmt(t[pid][0])}]"
        elif pid in q:
            timing = re.sub(r"^[^\[]*", fmt(q[pid][0]) + " ", timing)
        elif pid in t:
            timing = re.sub(r"\[[^\]]*\]", "[" + fmt(t[pid][0]) + "]", timing)
        lines[i] = f"| {pid} | {eng} | {what} | {timing} | {dev} |"
    open(p, "w").write("\n".join(lines))
    tq, tt = sum(v[0] for v in q.values()), sum(v[0] for v in t.values())
    print(f"quick total {tq} s ({len(q)} checks), thorough total {tt} s ({len(t)} checks)")


if __name__ == "__main__":
    main()
