#!/bin/bash
# run every check of one tier sequentially; print one line per property
cd /verif
TIER=${1:-quick}; SEED=${2:-0}
for i in $(seq -w 1 20); do
  id=C$i
  s=$(date +%s)
  out=$(VERIF_SEED=$SEED ./check $id --tier $TIER 2>&1); rc=$?
  e=$(( $(date +%s) - s ))
  nv=$(echo "$out" | grep -c '^VIOLATION')
  nk=$(echo "$out" | grep -c '^KNOWN-FINDING')
  echo "$id tier=$TIER seed=$SEED rc=$rc wall=${e}s violations=$nv known=$nk :: $(echo "$out" | grep '^SUMMARY' | cut -c1-160)"
  if [ $rc -ne 0 ]; then echo "$out" | grep -v '^SUMMARY' | head -6 | cut -c1-300; fi
done
