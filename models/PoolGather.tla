---------------------------- MODULE PoolGather ----------------------------
(* Executor model behind kmc/sched.py: N tasks are submitted in order 1..N to a pool of W workers;
   a task starts as soon as it is the next unsubmitted-to-worker task and fewer than W tasks are
   running; running tasks finish in any order. `order` records the completion order. *)
EXTENDS Naturals, Sequences, FiniteSets
CONSTANTS N, W
VARIABLES started, done, order
vars == <<started, done, order>>
Init == started = {} /\ done = {} /\ order = <<>>
Running == started \ done
Start == /\ Cardinality(started) < N
         /\ Cardinality(Running) < W
         /\ started' = started \cup {Cardinality(started) + 1}
         /\ UNCHANGED <<done, order>>
(* the pool starts queued tasks eagerly: a finish is only observed when no start is pending *)
StartPending == Cardinality(started) < N /\ Cardinality(Running) < W
Finish(i) == /\ ~StartPending
             /\ i \in Running
             /\ done' = done \cup {i}
             /\ order' = Append(order, i)
             /\ UNCHANGED started
Next == Start \/ \E i \in 1..N : Finish(i)
Spec == Init /\ [][Next]_vars
=============================================================================
